// Overlaid into github.com/arr-ai/arrai/cmd/arrai by /verif/check (never written into /repo).
// C17 engine, layer 3: the real websocket front end (websocketFrontend.ServeHTTP, gorilla/websocket,
// net/http's server loop) over in-memory connections (net.Pipe), with the real engine, in one synctest
// bubble. The simulator owns the transport: a client's reader can be paused (a slow consumer: the engine
// then blocks inside that client's write) and resumed.
package main

import (
	"context"
	"fmt"
	"net"
	"net/http"
	"net/url"
	"sort"
	"strings"
	gosync "sync"
	"testing/synctest"
	"time"

	"github.com/gorilla/websocket"

	"github.com/arr-ai/arrai/engine"
	"github.com/arr-ai/arrai/pkg/arraictx"
	"github.com/arr-ai/arrai/rel"
	"github.com/arr-ai/arrai/syntax"

	vrun "aaverif/run"
	"aaverif/tape"
)

func init() { vrun.Register("wssim", wssimRun) }

type pipeListener struct {
	ch   chan net.Conn
	done chan struct{}
}

func (l *pipeListener) Accept() (net.Conn, error) {
	select {
	case c := <-l.ch:
		return c, nil
	case <-l.done:
		return nil, fmt.Errorf("listener closed")
	}
}
func (l *pipeListener) Close() error   { return nil }
func (l *pipeListener) Addr() net.Addr { return pipeAddr{} }

type pipeAddr struct{}

func (pipeAddr) Network() string { return "pipe" }
func (pipeAddr) String() string  { return "pipe" }

// wobs is one observation a client has made on its connection.
type wobs struct {
	src      string
	s0       int
	initial  string
	required []string
	ended    bool // replaced by a later expression, or its expression failed
	unknown  bool
}

type wclient struct {
	idx    int
	ws     *websocket.Conn
	mu     gosync.Mutex
	got    []string
	resume chan struct{} // non-nil while the reader is paused; closed to resume (a closed channel cannot lose a wake-up)
	closed bool
	dying  bool // an observation on this connection failed: the server is closing the connection
	obs    []*wobs
}

type wsim struct {
	c       *vrun.Ctx
	t       *tape.Tape
	ctx     context.Context
	e       *engine.Engine
	lis     *pipeListener
	clients []*wclient
	states  []rel.Value
	nextSer int
	descs   []string
	kinds   []string
}

func (s *wsim) cur() rel.Value { return s.states[len(s.states)-1] }

func (s *wsim) modelEval(src string, state rel.Value) (v rel.Value, err error) {
	defer func() {
		if r := recover(); r != nil {
			err = fmt.Errorf("panic: %v", r)
		}
	}()
	e, err := syntax.Compile(s.ctx, syntax.NoPath, src)
	if err != nil {
		return nil, err
	}
	return e.Eval(s.ctx, rel.EmptyScope.With("$", state))
}

// reader drains the client's connection unless the simulator has paused it.
func (cl *wclient) reader() {
	for {
		cl.mu.Lock()
		ch := cl.resume
		cl.mu.Unlock()
		if ch != nil {
			<-ch
			continue
		}
		_, msg, err := cl.ws.ReadMessage()
		if err != nil {
			return
		}
		cl.mu.Lock()
		cl.got = append(cl.got, string(msg))
		cl.mu.Unlock()
	}
}

func (s *wsim) connect() *wclient {
	c1, c2 := net.Pipe()
	s.lis.ch <- c1
	u, _ := url.Parse("ws://sim/")
	ws, _, err := websocket.NewClient(c2, u, http.Header{}, 1024, 1024)
	if err != nil {
		s.c.Violate("progress", "C17/ws-handshake", "websocket handshake failed: %v", err)
		return nil
	}
	cl := &wclient{idx: len(s.clients), ws: ws}
	s.clients = append(s.clients, cl)
	go cl.reader()
	synctest.Wait()
	return cl
}

func (s *wsim) anyPaused() bool {
	for _, cl := range s.clients {
		cl.mu.Lock()
		p := cl.resume != nil
		cl.mu.Unlock()
		if p {
			return true
		}
	}
	return false
}

func (s *wsim) resumeAll() {
	for _, cl := range s.clients {
		cl.mu.Lock()
		if cl.resume != nil {
			close(cl.resume)
			cl.resume = nil
		}
		cl.mu.Unlock()
	}
	synctest.Wait()
}

func (s *wsim) install(v rel.Value) {
	s.states = append(s.states, v)
	for _, cl := range s.clients {
		if cl.closed || len(cl.obs) == 0 {
			continue
		}
		o := cl.obs[len(cl.obs)-1]
		if o.ended || o.unknown {
			continue
		}
		ov, err := s.modelEval(o.src, v)
		if err != nil {
			// the observation fails: the front end closes the whole connection
			o.ended, cl.dying = true, true
			continue
		}
		js, ok := marshal(ov)
		if !ok {
			o.ended, cl.dying = true, true
			continue
		}
		o.required = append(o.required, js)
	}
}

var wsUpdateKinds = []string{"(v: %d, x: %d)", "(v: %d)", "$ +> (v: %d)", "$.zzz"}
var wsObserveKinds = []string{"$", "$.v", "$.x", "42", "$.zzz", "($.v) + 1000"}

func (s *wsim) update(where string) {
	kind := wsUpdateKinds[s.t.Draw(len(wsUpdateKinds))]
	s.nextSer++
	src := kind
	switch strings.Count(kind, "%d") {
	case 1:
		src = fmt.Sprintf(kind, s.nextSer)
	case 2:
		src = fmt.Sprintf(kind, s.nextSer, s.nextSer)
	}
	expr, err := syntax.Compile(s.ctx, syntax.NoPath, src)
	if err != nil {
		return
	}
	s.kinds = append(s.kinds, "update")
	s.descs = append(s.descs, "Update("+src+")")
	s.c.Logf("%s: update `%s`", where, src)
	done, uerr := false, error(nil)
	go func() { uerr = s.e.Update(expr); done = true }()
	synctest.Wait()
	for guard := 0; guard < 20 && !done && s.anyPaused(); guard++ {
		s.c.Probe("update-pending-behind-paused-client")
		s.resumeAll()
	}
	if !done {
		s.c.Violate("progress", "C17/ws-wedge", "%s: update `%s` is not answered although every client is reading (engine wedged); history %v", where, src, s.descs)
		return
	}
	v, merr := s.modelEval(src, s.cur())
	switch {
	case merr != nil && uerr == nil:
		s.c.Violate("failed-update-changes-nothing", "C17/ws-update-acked-but-fails", "update `%s` fails on the current state but was acknowledged", src)
	case merr == nil && uerr != nil:
		s.c.Violate("update-answered", "C17/ws-update-refused", "update `%s` evaluates on the current state but was refused: %v", src, uerr)
	case merr == nil:
		s.install(v)
	}
}

func (s *wsim) step(i int) {
	t := s.t
	s.c.Step()
	where := fmt.Sprintf("step %d", i)
	k := t.Draw(12)
	switch {
	case k < 4:
		s.update(where)
	case k < 7:
		// a client (new or existing) sends an expression: its previous observation on that connection ends
		var cl *wclient
		if len(s.clients) == 0 || (len(s.clients) < 3 && t.Bool(1, 3)) {
			if cl = s.connect(); cl == nil {
				return
			}
		} else {
			cl = s.clients[t.Draw(len(s.clients))]
		}
		if cl.closed {
			return
		}
		src := wsObserveKinds[t.Draw(len(wsObserveKinds))]
		s.kinds = append(s.kinds, "observe")
		s.descs = append(s.descs, fmt.Sprintf("client%d sends %s", cl.idx, src))
		s.c.Logf("%s: client %d sends `%s`", where, cl.idx, src)
		if len(cl.obs) > 0 {
			cl.obs[len(cl.obs)-1].ended = true
			s.c.Probe("observation-replaced-on-a-connection")
		}
		sent := false
		go func() { cl.ws.WriteMessage(websocket.TextMessage, []byte(src)); sent = true }()
		synctest.Wait()
		for guard := 0; guard < 20 && s.anyPaused(); guard++ {
			// the handler may be waiting for the engine (cancel of the previous observation, or the new
			// subscription) while the engine is inside a paused client's write
			s.resumeAll()
		}
		_ = sent
		o := &wobs{src: src, s0: len(s.states) - 1}
		if v, err := s.modelEval(src, s.cur()); err != nil {
			o.unknown, o.ended, cl.dying = true, true, true
		} else if js, ok := marshal(v); ok {
			o.initial = js
		} else {
			o.unknown, o.ended, cl.dying = true, true, true
		}
		if cl.dying {
			// sent on a connection the server is already closing: what it still gets is not specified
			o.unknown = true
		}
		cl.obs = append(cl.obs, o)
	case k < 9 && len(s.clients) > 0:
		cl := s.clients[t.Draw(len(s.clients))]
		cl.mu.Lock()
		if !cl.closed && cl.resume == nil {
			cl.resume = make(chan struct{})
			s.c.Fault("ws-client-stops-reading")
			s.kinds = append(s.kinds, "pause")
			s.descs = append(s.descs, fmt.Sprintf("client%d stops reading", cl.idx))
		}
		cl.mu.Unlock()
	default:
		if s.anyPaused() {
			s.kinds = append(s.kinds, "resume")
			s.descs = append(s.descs, "clients read again")
			s.resumeAll()
		}
	}
}

func (s *wsim) body() {
	s.ctx = arraictx.InitRunCtx(context.Background())
	s.states = []rel.Value{rel.None}
	s.e = engine.Start()
	fe := newWebsocketFrontend(s.e)
	s.lis = &pipeListener{ch: make(chan net.Conn), done: make(chan struct{})}
	srv := &http.Server{Handler: http.HandlerFunc(fe.ServeHTTP)}
	go srv.Serve(s.lis)
	synctest.Wait()
	steps := s.t.Range(3, 22)
	for i := 0; i < steps && !s.c.Failed(); i++ {
		s.step(i)
	}
	if !s.c.Failed() {
		s.resumeAll()
		s.update("final")
	}
	if !s.c.Failed() {
		s.resumeAll()
	}
	// wind down: closing the connections ends the handlers; the engine is stopped last
	for _, cl := range s.clients {
		cl.ws.Close()
		cl.closed = true
	}
	synctest.Wait()
	if !s.c.Failed() {
		stopped := false
		go func() { s.e.Hangup(); s.e.Stop(); stopped = true }()
		synctest.Wait()
		if !stopped {
			s.c.Violate("progress", "C17/ws-wedge", "Hangup/Stop is not answered after all clients closed (engine wedged); history %v", s.descs)
		}
	}
	close(s.lis.done)
	srv.Close()
	synctest.Wait()
}

func (s *wsim) checkStreams() {
	for _, cl := range s.clients {
		cl.mu.Lock()
		got := append([]string(nil), cl.got...)
		cl.mu.Unlock()
		if cl.dying {
			// the server is closing this connection on its own (an observation on it failed): how much of what was
			// sent afterwards still arrives depends on the race with that close and is neither judged nor logged
			s.c.Logf("client %d: connection closed by the server after a failed observation", cl.idx)
			continue
		}
		s.c.Logf("client %d received %v", cl.idx, got)
		// error replies ({"error": ...}) for expressions that do not compile are not part of the streams
		var msgs []string
		for _, m := range got {
			if !strings.HasPrefix(m, `{"error"`) {
				msgs = append(msgs, m)
			}
		}
		unknown := false
		var withInit, without []string
		for _, o := range cl.obs {
			if o.unknown {
				unknown = true
				break
			}
			withInit = append(withInit, o.initial)
			withInit = append(withInit, o.required...)
			without = append(without, o.required...)
		}
		if unknown {
			continue
		}
		// the last observation is still live: everything required must have arrived, nothing more
		if strings.Join(msgs, "\n") != strings.Join(withInit, "\n") && strings.Join(msgs, "\n") != strings.Join(without, "\n") {
			var descr []string
			for _, o := range cl.obs {
				descr = append(descr, fmt.Sprintf("`%s` from state %d: initial %s then %v", o.src, o.s0, o.initial, o.required))
			}
			s.c.Violate("observer-stream", "C17/ws-stream", "websocket client %d received %v; its observations require %s (history %v)", cl.idx, msgs, strings.Join(descr, " | "), s.descs)
			return
		}
	}
}

func wssimRun(c *vrun.Ctx) {
	s := &wsim{c: c, t: c.Tape}
	msg, stuck := vrun.Bubble(c.T, 25*time.Second, s.body)
	switch {
	case stuck:
		c.Violate("progress", "C17/ws-wedge/never-quiescent", "the simulation never became quiescent: a goroutine of the server is blocked for ever on something that is not a channel or the network (a mutex); history %v", s.descs)
	case strings.Contains(msg, "deadlock"):
		c.Probe("bubble-ended-with-blocked-goroutines")
	case msg != "":
		c.Violate("no-crash", "C17/ws-panic", "panic: %s", msg)
	}
	if !c.Failed() {
		s.checkStreams()
	}
	nU, nO := 0, 0
	for _, k := range s.kinds {
		switch k {
		case "update":
			nU++
		case "observe":
			nO++
		}
	}
	c.Res.Nontrivial = nU >= 2 && nO >= 1
	sort.Strings(s.kinds)
	c.Res.State = vrun.Fingerprint(strings.Join(s.descs, ";"))
	if c.Tape.Len()%20 == 0 || c.Verbose {
		c.Res.Sample = map[string]any{"history": s.descs}
	}
}
