// This file is overlaid (go test -overlay) into github.com/arr-ai/arrai/cmd/arrai by
// /verif/check; it is never written into /repo. It is the C17 engine, layer 2:
// the real gRPC handlers arraiServer.Update / arraiServer.Observe over fake
// streams, with the real engine, in one synctest bubble.
package main

import (
	"context"
	"fmt"
	"io"
	"sort"
	"strings"
	gosync "sync"
	"testing"
	"testing/synctest"
	"time"

	pb "github.com/arr-ai/proto"
	"github.com/sirupsen/logrus"
	"google.golang.org/grpc"

	"github.com/arr-ai/arrai/engine"
	"github.com/arr-ai/arrai/pkg/arraictx"
	"github.com/arr-ai/arrai/rel"
	"github.com/arr-ai/arrai/syntax"

	vrun "aaverif/run"
	"aaverif/tape"
	"aaverif/workerlib"
)

func TestWorker(t *testing.T) { workerlib.Serve(t) }

func init() {
	vrun.Register("grpcsim", grpcsimRun)
	logrus.SetOutput(io.Discard)
	logrus.SetLevel(logrus.PanicLevel)
}

const (
	gOK = iota
	gErr
	gBlock
)

type gobs struct {
	grpc.ServerStream
	s     *gsim
	idx   int
	src   string
	expr  rel.Expr
	param uint64

	mu      gosync.Mutex
	got     []string
	deliv   int
	ended   bool
	endErr  error
	started bool

	ctx          context.Context
	cancelCtx    context.CancelFunc
	disconnected bool // the client went away: every later Send fails

	subscribed bool
	s0         int
	dead       bool
	deadCause  string
	unknown    bool
	initial    string
	required   []string
}

// Context is the stream's context: it is cancelled when the client goes away (a failed Send, or an explicit
// disconnect step), as a real gRPC transport does.
func (o *gobs) Context() context.Context { return o.ctx }

func (o *gobs) Send(r *pb.ObserveResp) error {
	js := r.GetValue().GetJson()
	o.mu.Lock()
	first := o.deliv == 0
	o.deliv++
	o.got = append(o.got, js)
	o.mu.Unlock()
	o.mu.Lock()
	gone := o.disconnected
	o.mu.Unlock()
	if gone {
		return fmt.Errorf("observer %d: client went away", o.idx)
	}
	if first {
		return nil
	}
	switch o.s.behaviour(o.param, gSerial(js)) {
	case gErr:
		o.cancelCtx()
		return fmt.Errorf("observer %d: transport closed", o.idx)
	case gBlock:
		o.s.mu.Lock()
		o.s.nblk++
		o.s.mu.Unlock()
		<-o.s.gate
		o.s.mu.Lock()
		o.s.nblk--
		o.s.mu.Unlock()
	}
	return nil
}

type gupd struct {
	grpc.ServerStream
	s      *gsim
	idx    int
	reqs   chan *pb.UpdateReq
	rerr   chan error
	failAt int // the n-th ack Send fails (0 = never)

	mu    gosync.Mutex
	acks  int
	sends int
	ended bool
	ret   error
}

func (u *gupd) Context() context.Context { return context.Background() }

func (u *gupd) Recv() (*pb.UpdateReq, error) {
	select {
	case r, ok := <-u.reqs:
		if !ok {
			return nil, io.EOF
		}
		return r, nil
	case err := <-u.rerr:
		return nil, err
	}
}

func (u *gupd) Send(*pb.UpdateAck) error {
	u.mu.Lock()
	defer u.mu.Unlock()
	u.sends++
	if u.failAt > 0 && u.sends == u.failAt {
		return fmt.Errorf("update stream %d: transport closed", u.idx)
	}
	u.acks++
	return nil
}

type gsim struct {
	c      *vrun.Ctx
	t      *tape.Tape
	ctx    context.Context
	srv    *arraiServer
	e      *engine.Engine
	mu     gosync.Mutex
	gate   chan struct{}
	nblk   int
	faults bool

	obs  []*gobs
	upds []*gupd

	states    []rel.Value
	nextSer   int
	lastCause string
	kinds     []string
	descs     []string
}

func gmix(a, b uint64) uint64 {
	h := a ^ (b+0x9e3779b97f4a7c15)*0xbf58476d1ce4e5b9
	h = (h ^ (h >> 30)) * 0xbf58476d1ce4e5b9
	h = (h ^ (h >> 27)) * 0x94d049bb133111eb
	return h ^ (h >> 31)
}

// gSerial extracts the state serial from the JSON a delivery carries.
func gSerial(js string) int {
	i := strings.Index(js, `"v":`)
	if i < 0 {
		var n int
		if _, err := fmt.Sscanf(js, "%d", &n); err == nil {
			return n
		}
		return -1
	}
	var n int
	if _, err := fmt.Sscanf(js[i+4:], "%d", &n); err != nil {
		return -1
	}
	return n
}

func (s *gsim) behaviour(param uint64, serial int) int {
	if !s.faults || serial < 0 {
		return gOK
	}
	switch gmix(param, uint64(serial)) % 10 {
	case 0, 1:
		return gErr
	case 2, 3:
		return gBlock
	}
	return gOK
}

func (s *gsim) blocked() int {
	s.mu.Lock()
	defer s.mu.Unlock()
	return s.nblk
}

func (s *gsim) release() bool {
	if s.blocked() == 0 {
		return false
	}
	s.gate <- struct{}{}
	s.c.Logf("  release")
	return true
}

func (s *gsim) modelEval(src string, state rel.Value) (v rel.Value, err error) {
	defer func() {
		if r := recover(); r != nil {
			err = fmt.Errorf("panic: %v", r)
		}
	}()
	e, err := syntax.Compile(s.ctx, syntax.NoPath, src)
	if err != nil {
		return nil, err
	}
	return e.Eval(s.ctx, rel.EmptyScope.With("$", state))
}

func marshal(v rel.Value) (js string, ok bool) {
	defer func() {
		if recover() != nil {
			js, ok = "", false
		}
	}()
	return string(rel.MarshalToJSON(v)), true
}

func (s *gsim) cur() rel.Value { return s.states[len(s.states)-1] }

func (s *gsim) install(v rel.Value) {
	s.states = append(s.states, v)
	for _, o := range s.obs {
		if !o.subscribed || o.dead {
			continue
		}
		ov, err := s.modelEval(o.src, v)
		if err != nil {
			o.dead, o.deadCause = true, "observer-eval-error"
			s.lastCause = "observer-eval-error"
			continue
		}
		js, encodable := marshal(ov)
		if !encodable {
			// the frontend cannot put this value on the wire (e.g. +Inf): the observer fails, nobody else may
			o.dead, o.deadCause = true, "unencodable-value"
			s.lastCause = "unencodable-value"
			s.c.Fault("observer-value-unencodable")
			continue
		}
		o.required = append(o.required, js)
		o.mu.Lock()
		gone := o.disconnected
		o.mu.Unlock()
		if gone {
			o.dead, o.deadCause = true, "client-disconnected"
			s.lastCause = "client-disconnected"
			continue
		}
		switch s.behaviour(o.param, gSerial(js)) {
		case gErr:
			o.dead, o.deadCause = true, "send-error"
			s.lastCause = "send-error"
			s.c.Fault("observe-stream-send-error")
		case gBlock:
			s.c.Fault("observe-stream-send-blocks")
		}
	}
}

func (s *gsim) wedged(where, what string) {
	cause := s.lastCause
	if cause == "" {
		cause = "no-observer-failure"
	}
	s.c.Violate("progress", "C17/grpc-wedge/"+cause, "%s: %s is not answered although no stream Send is blocked (engine wedged; last observer event in the model: %s)", where, what, cause)
}

var gUpdateKinds = []string{"(v: %d, x: %d)", "(v: %d)", "$ +> (v: %d)", "$.zzz", "(v: %d, x: %d)", "(v: %d, x: %d", "(v: %d, x: %d)", "$"}
var gObserveKinds = []string{"$", "$.v", "$.x", "42", "$.zzz", "$", "$ ++", "1 / ($.v - 2)", "1 / ($.v - 4)"}

// sendUpdate pushes one request into an update stream and settles.
func (s *gsim) sendUpdate(where string, u *gupd, src string) {
	u.mu.Lock()
	acks0, ended0 := u.acks, u.ended
	sends0 := u.sends
	u.mu.Unlock()
	if ended0 {
		return
	}
	u.reqs <- &pb.UpdateReq{Expr: src}
	synctest.Wait()
	for guard := 0; guard < 100; guard++ {
		u.mu.Lock()
		answered := u.sends > sends0 || u.ended
		u.mu.Unlock()
		if answered {
			break
		}
		if !s.release() {
			s.wedged(where, "update `"+src+"`")
			return
		}
		s.c.Probe("update-pending-behind-blocked-send")
		synctest.Wait()
	}
	u.mu.Lock()
	acked, ended, sendFailed := u.acks > acks0, u.ended, u.sends > sends0 && u.acks == acks0
	u.mu.Unlock()
	v, merr := s.modelEval(src, s.cur())
	s.c.Logf("  update `%s` on stream %d: acked=%v stream-ended=%v ack-send-failed=%v (model err=%v)", src, u.idx, acked, ended, sendFailed, merr != nil)
	switch {
	case merr != nil && (acked || sendFailed):
		s.c.Violate("failed-update-changes-nothing", "C17/grpc-update-acked-but-fails", "update `%s` fails on the current state but was acknowledged", src)
	case merr == nil && !acked && !sendFailed:
		s.c.Violate("update-answered", "C17/grpc-update-refused", "update `%s` evaluates on the current state but the stream ended without acknowledgement (%v)", src, u.ret)
	case merr == nil:
		s.install(v)
	default:
		s.c.Probe("update-failed-legitimately")
		if !ended {
			s.c.Violate("update-answered", "C17/grpc-update-unanswered", "update `%s` fails on the current state but the handler neither acknowledged nor returned", src)
		}
	}
}

func (s *gsim) newUpdateStream() *gupd {
	u := &gupd{s: s, idx: len(s.upds), reqs: make(chan *pb.UpdateReq), rerr: make(chan error)}
	if s.faults && s.t.Bool(1, 4) {
		u.failAt = s.t.Range(1, 3)
		s.c.Fault("update-stream-ack-send-error-armed")
	}
	s.upds = append(s.upds, u)
	go func() {
		err := s.srv.Update(u)
		u.mu.Lock()
		u.ended, u.ret = true, err
		u.mu.Unlock()
	}()
	synctest.Wait()
	return u
}

func (s *gsim) liveUpdateStream() *gupd {
	var live []*gupd
	for _, u := range s.upds {
		u.mu.Lock()
		if !u.ended {
			live = append(live, u)
		}
		u.mu.Unlock()
	}
	if len(live) == 0 || (len(s.upds) < 4 && s.t.Bool(1, 4)) {
		return s.newUpdateStream()
	}
	return live[s.t.Draw(len(live))]
}

func (s *gsim) step(i int) {
	t := s.t
	s.c.Step()
	k := t.Draw(12)
	switch {
	case k < 5:
		kind := gUpdateKinds[t.Draw(len(gUpdateKinds))]
		s.nextSer++
		src := kind
		switch strings.Count(kind, "%d") {
		case 1:
			src = fmt.Sprintf(kind, s.nextSer)
		case 2:
			src = fmt.Sprintf(kind, s.nextSer, s.nextSer)
		}
		u := s.liveUpdateStream()
		s.kinds = append(s.kinds, "update")
		s.descs = append(s.descs, fmt.Sprintf("stream%d.Update(%s)", u.idx, src))
		s.c.Logf("step %d: update `%s` on stream %d", i, src, u.idx)
		s.sendUpdate(fmt.Sprintf("step %d", i), u, src)
	case k < 8 && len(s.obs) < 5:
		for guard := 0; guard < 100 && s.release(); guard++ {
			synctest.Wait()
		}
		src := gObserveKinds[t.Draw(len(gObserveKinds))]
		o := &gobs{s: s, idx: len(s.obs), src: src, param: uint64(t.Draw(1 << 16))}
		o.ctx, o.cancelCtx = context.WithCancel(context.Background())
		s.obs = append(s.obs, o)
		s.kinds = append(s.kinds, "observe")
		s.descs = append(s.descs, fmt.Sprintf("Observe#%d(%s)", o.idx, src))
		s.c.Logf("step %d: observe #%d `%s`", i, o.idx, src)
		go func() {
			err := s.srv.Observe(&pb.ObserveReq{Expr: src}, o)
			o.mu.Lock()
			o.ended, o.endErr = true, err
			o.mu.Unlock()
		}()
		synctest.Wait()
		o.subscribed = true
		o.s0 = len(s.states) - 1
		v, merr := s.modelEval(src, s.cur())
		if merr != nil {
			o.dead, o.deadCause, o.unknown = true, "observer-eval-error", true
			s.lastCause = "observer-eval-error-at-subscription"
			o.mu.Lock()
			ended := o.ended
			o.mu.Unlock()
			if !ended && s.blocked() == 0 {
				s.c.Violate("progress", "C17/grpc-observe-unanswered", "Observe(`%s`) cannot be evaluated but the handler did not return", src)
			}
		} else {
			js, encodable := marshal(v)
			if !encodable {
				o.dead, o.deadCause, o.unknown = true, "unencodable-value", true
				s.lastCause = "unencodable-value-at-subscription"
			}
			o.initial = js
		}
	case k == 9 && len(s.obs) > 0 && t.Bool(1, 2):
		// the client of an observer goes away without a word: its context is cancelled, later Sends fail
		o := s.obs[t.Draw(len(s.obs))]
		o.mu.Lock()
		already := o.disconnected
		o.disconnected = true
		o.mu.Unlock()
		if !already {
			// from now on the observer is not live: deliveries it has not received yet (a round may be in
			// progress behind a blocked Send) are no longer required
			if o.subscribed && !o.dead {
				o.mu.Lock()
				delivered := len(o.got)
				if delivered > 0 && o.got[0] == o.initial && (len(o.required) == 0 || delivered > len(o.required) || o.got[0] != o.required[0]) {
					delivered--
				}
				o.mu.Unlock()
				if delivered < len(o.required) {
					o.required = o.required[:delivered]
				}
				o.dead, o.deadCause = true, "client-disconnected"
				s.lastCause = "client-disconnected"
			}
			o.cancelCtx()
			s.c.Fault("observe-stream-client-disconnects")
			s.kinds = append(s.kinds, "disconnect")
			s.descs = append(s.descs, fmt.Sprintf("Observe#%d client disconnects", o.idx))
			s.c.Logf("step %d: observer #%d client disconnects", i, o.idx)
			synctest.Wait()
		}
	case k == 8 && len(s.upds) > 0:
		u := s.upds[t.Draw(len(s.upds))]
		u.mu.Lock()
		ended := u.ended
		u.mu.Unlock()
		if ended {
			return
		}
		if t.Bool(1, 2) {
			close(u.reqs)
			s.descs = append(s.descs, fmt.Sprintf("stream%d.CloseSend", u.idx))
		} else {
			u.rerr <- fmt.Errorf("update stream %d: connection reset", u.idx)
			s.c.Fault("update-stream-recv-error")
			s.descs = append(s.descs, fmt.Sprintf("stream%d.RecvError", u.idx))
		}
		s.kinds = append(s.kinds, "close")
		synctest.Wait()
		u.mu.Lock()
		ended = u.ended
		u.mu.Unlock()
		if !ended {
			s.c.Violate("progress", "C17/grpc-update-handler-stuck", "update stream %d was closed by the client but its handler did not return", u.idx)
		}
	default:
		if s.release() {
			s.kinds = append(s.kinds, "release")
			synctest.Wait()
		}
	}
}

func (s *gsim) body() {
	s.ctx = arraictx.InitRunCtx(context.Background())
	s.gate = make(chan struct{})
	s.states = []rel.Value{rel.None}
	s.e = engine.Start()
	s.srv = &arraiServer{s.e}
	synctest.Wait()
	steps := s.t.Range(3, 25)
	for i := 0; i < steps && !s.c.Failed(); i++ {
		s.step(i)
	}
	for guard := 0; guard < 200 && !s.c.Failed() && s.release(); guard++ {
		synctest.Wait()
	}
	if !s.c.Failed() {
		s.faults = false
		s.nextSer++
		u := s.newUpdateStream()
		u.failAt = 0
		src := fmt.Sprintf("(v: %d, x: %d)", s.nextSer, s.nextSer)
		s.c.Logf("final: update `%s`", src)
		s.sendUpdate("final update", u, src)
	}
	if !s.c.Failed() {
		for guard := 0; guard < 100 && s.release(); guard++ {
			synctest.Wait()
		}
		for _, u := range s.upds {
			u.mu.Lock()
			ended := u.ended
			u.mu.Unlock()
			if !ended {
				close(u.reqs)
			}
		}
		synctest.Wait()
		s.e.Hangup()
		synctest.Wait()
		stopped := false
		go func() { s.e.Stop(); stopped = true }()
		synctest.Wait()
		if !stopped {
			s.wedged("stop", "Stop")
		}
	}
}

func gCauseOrLive(o *gobs) string {
	if o.dead {
		return "ended:" + o.deadCause
	}
	return "live"
}

func (s *gsim) matchStream(o *gobs, got, rest []string) func() {
	for i, want := range o.required {
		i, want := i, want
		if i >= len(rest) {
			return func() {
				s.c.Violate("observer-stream", "C17/grpc-stream/missing/"+gCauseOrLive(o), "observer #%d (`%s`, subscribed at state %d, %s) received %v; required after subscription %v: delivery %d is missing", o.idx, o.src, o.s0, gCauseOrLive(o), got, o.required, i)
			}
		}
		if rest[i] != want {
			return func() {
				s.c.Violate("observer-stream", "C17/grpc-stream/wrong-value/"+gCauseOrLive(o), "observer #%d (`%s`, subscribed at state %d, %s) received %v; required after subscription %v: delivery %d is %s, want %s", o.idx, o.src, o.s0, gCauseOrLive(o), got, o.required, i, rest[i], want)
			}
		}
	}
	if len(rest) > len(o.required) {
		if o.dead {
			s.c.Probe("delivery-after-observer-ended")
		} else {
			return func() {
				s.c.Violate("observer-stream", "C17/grpc-stream/extra", "live observer #%d (`%s`) received %v, more than the states installed after it subscribed (%v)", o.idx, o.src, got, o.required)
			}
		}
	}
	return nil
}

func (s *gsim) checkStreams() {
	for _, o := range s.obs {
		if !o.subscribed {
			continue
		}
		o.mu.Lock()
		got := append([]string(nil), o.got...)
		o.mu.Unlock()
		if o.deadCause == "client-disconnected" {
			// how much of a round in progress reached this stream before its client went away depends on the order
			// in which the engine visits its observers (a Go map): judged below, but not part of the event log
			s.c.Logf("observer #%d `%s` s0=%d %s", o.idx, o.src, o.s0, gCauseOrLive(o))
		} else {
			s.c.Logf("observer #%d `%s` s0=%d %s required=%v got=%v", o.idx, o.src, o.s0, gCauseOrLive(o), o.required, got)
		}
		if o.unknown {
			continue
		}
		cands := [][]string{got}
		if len(got) > 0 && got[0] == o.initial {
			cands = [][]string{got[1:], got}
		}
		var first func()
		ok := false
		for _, rest := range cands {
			p := s.matchStream(o, got, rest)
			if p == nil {
				ok = true
				break
			}
			if first == nil {
				first = p
			}
		}
		if !ok {
			first()
			return
		}
	}
}

func grpcsimRun(c *vrun.Ctx) {
	s := &gsim{c: c, t: c.Tape, faults: c.Knob("faults", "on") == "on"}
	msg, stuck := vrun.Bubble(c.T, 25*time.Second, s.body)
	switch {
	case stuck:
		c.Violate("progress", "C17/grpc-wedge/never-quiescent", "the simulation never became quiescent: a goroutine of the server is blocked for ever on something that is not a channel (a mutex)")
	case strings.Contains(msg, "deadlock"):
		c.Probe("bubble-ended-with-blocked-goroutines")
	case msg != "":
		c.Violate("no-crash", "C17/grpc-panic", "panic: %s", msg)
	}
	if !c.Failed() {
		s.checkStreams()
	}
	nU, nO := 0, 0
	for _, k := range s.kinds {
		switch k {
		case "update":
			nU++
		case "observe":
			nO++
		}
	}
	c.Res.Nontrivial = nU >= 2 && nO >= 1
	var shape []string
	for _, o := range s.obs {
		shape = append(shape, o.src+"/"+gCauseOrLive(o)+fmt.Sprint(len(o.required)))
	}
	sort.Strings(shape)
	c.Res.State = vrun.Fingerprint(strings.Join(s.kinds, ","), strings.Join(shape, "|"))
	if c.Tape.Len()%30 == 0 || c.Verbose {
		c.Res.Sample = map[string]any{"history": s.descs, "observers": shape}
	}
}
