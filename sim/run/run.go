// Package run holds what every simulated run shares: the choice tape, the
// event log (hashed; kept as text only on request), fault and probe counters
// and the verdict.
package run

import (
	"crypto/sha256"
	"encoding/hex"
	"fmt"
	"hash"
	"os"
	"runtime/debug"
	"sort"
	"strings"
	"testing"
	"testing/synctest"
	"time"

	"aaverif/tape"
)

// Violation is one property violation found by an oracle.
type Violation struct {
	Oracle string `json:"oracle"`
	Sig    string `json:"sig"`
	Msg    string `json:"msg"`
}

// Result is the verdict of one run, sent back to the orchestrator.
type Result struct {
	ID         int64          `json:"id"`
	Engine     string         `json:"engine"`
	Seed       uint64         `json:"seed"`
	HashSeed   uint64         `json:"hash_seed"`
	V          *Violation     `json:"v,omitempty"`
	Tape       []uint64       `json:"tape,omitempty"`
	Steps      int            `json:"steps"`
	Faults     map[string]int `json:"faults,omitempty"`
	Probes     map[string]int `json:"probes,omitempty"`
	Trace      string         `json:"trace"`           // sha256 of the event log
	Sched      string         `json:"sched,omitempty"` // sha256 of the decision trace only
	State      string         `json:"state,omitempty"` // engine-specific fingerprint of what was reached
	Nontrivial bool           `json:"nt"`
	Sample     any            `json:"sample,omitempty"`
	Log        []string       `json:"log,omitempty"`
	Out        map[string]any `json:"out,omitempty"` // engine-specific outputs (e.g. C07 output hashes)
}

// Ctx is handed to an engine for one run.
type Ctx struct {
	T       *testing.T
	Tape    *tape.Tape
	Knobs   map[string]string
	Verbose bool
	Res     *Result

	logH   hash.Hash
	schedH hash.Hash
	log    []string
}

// NewCtx prepares a run context.
func NewCtx(t *testing.T, tp *tape.Tape, knobs map[string]string, verbose bool, res *Result) *Ctx {
	if knobs == nil {
		knobs = map[string]string{}
	}
	res.Faults = map[string]int{}
	res.Probes = map[string]int{}
	return &Ctx{T: t, Tape: tp, Knobs: knobs, Verbose: verbose, Res: res, logH: sha256.New(), schedH: sha256.New()}
}

// Logf appends one event to the run's log. It never draws and never reads a clock.
func (c *Ctx) Logf(format string, a ...any) {
	s := fmt.Sprintf(format, a...)
	c.logH.Write([]byte(s))
	c.logH.Write([]byte{'\n'})
	if c.Verbose {
		c.log = append(c.log, s)
	}
	if traceStderr {
		fmt.Fprintln(os.Stderr, "| "+s)
	}
}

var traceStderr = os.Getenv("VERIF_TRACE") != ""

// Decide records a scheduling/fault decision (part of both logs).
func (c *Ctx) Decide(format string, a ...any) {
	s := fmt.Sprintf(format, a...)
	c.schedH.Write([]byte(s))
	c.schedH.Write([]byte{'\n'})
	c.Logf("decide %s", s)
}

// Fault counts a fault that actually took effect.
func (c *Ctx) Fault(kind string) { c.Res.Faults[kind]++ }

// Probe counts a rare-branch hit.
func (c *Ctx) Probe(name string) { c.Res.Probes[name]++ }

// Step counts one simulation step.
func (c *Ctx) Step() { c.Res.Steps++ }

// Violate records the first violation of the run.
func (c *Ctx) Violate(oracle, sig, format string, a ...any) {
	msg := fmt.Sprintf(format, a...)
	c.Logf("VIOLATION %s %s %s", oracle, sig, msg)
	if c.Res.V == nil {
		if len(msg) > 2000 {
			msg = msg[:2000] + "..."
		}
		c.Res.V = &Violation{Oracle: oracle, Sig: sig, Msg: msg}
	}
}

// Failed reports whether a violation was already recorded.
func (c *Ctx) Failed() bool { return c.Res.V != nil }

// Knob returns a knob or its default.
func (c *Ctx) Knob(name, def string) string {
	if v, ok := c.Knobs[name]; ok {
		return v
	}
	return def
}

// Finish seals the hashes.
func (c *Ctx) Finish() {
	c.Res.Trace = hex.EncodeToString(c.logH.Sum(nil))[:24]
	c.Res.Sched = hex.EncodeToString(c.schedH.Sum(nil))[:24]
	c.Res.Tape = append([]uint64(nil), c.Tape.Out...)
	if c.Verbose {
		c.Res.Log = c.log
	}
}

// Fingerprint hashes strings into a short state id.
func Fingerprint(parts ...string) string {
	h := sha256.New()
	for _, p := range parts {
		h.Write([]byte(p))
		h.Write([]byte{0})
	}
	return hex.EncodeToString(h.Sum(nil))[:16]
}

// ArraiFrame extracts the innermost arr-ai/arrai frame of a panic stack
// (function name without arguments) for use in signatures.
func ArraiFrame(stack string) string {
	lines := strings.Split(stack, "\n")
	for _, l := range lines {
		l = strings.TrimSpace(l)
		if strings.HasPrefix(l, "github.com/arr-ai/arrai/") {
			if i := strings.LastIndex(l, "("); i > 0 {
				l = l[:i]
			}
			return strings.TrimPrefix(l, "github.com/arr-ai/arrai/")
		}
	}
	return "?"
}

// Guard runs f and converts a panic into (msg, frame, true).
func Guard(f func()) (msg, frame string, panicked bool) {
	defer func() {
		if r := recover(); r != nil {
			st := string(debug.Stack())
			msg = fmt.Sprint(r)
			frame = ArraiFrame(st)
			panicked = true
		}
	}()
	f()
	return
}

// SortedKeys returns sorted keys of a map.
func SortedKeys[V any](m map[string]V) []string {
	ks := make([]string, 0, len(m))
	for k := range m {
		ks = append(ks, k)
	}
	sort.Strings(ks)
	return ks
}

// Engine runs one simulated run.
type Engine func(c *Ctx)

var engines = map[string]Engine{}

// Register makes an engine available to the worker.
func Register(name string, e Engine) { engines[name] = e }

// Lookup finds an engine.
func Lookup(name string) (Engine, bool) { e, ok := engines[name]; return e, ok }

// Bubble runs body in a testing/synctest bubble on its own goroutine. It returns the panic message if
// the bubble panicked (the "deadlock" panic raised when body returns with goroutines still blocked
// included), and stuck=true if the bubble did not finish within limit of REAL time: inside a bubble
// synctest.Wait only returns when every goroutine is durably blocked, and a goroutine blocked for ever
// on a sync.Mutex is not -- such a deadlock makes the simulation itself hang, and this last-resort
// watchdog (runs take milliseconds; the limit is tens of seconds) turns it into a verdict. The stuck
// goroutines are abandoned.
func Bubble(t *testing.T, limit time.Duration, body func()) (panicMsg string, stuck bool) {
	done := make(chan string, 1)
	go func() {
		defer func() {
			if r := recover(); r != nil {
				done <- fmt.Sprint(r)
				return
			}
			done <- ""
		}()
		synctest.Test(t, func(*testing.T) { body() })
	}()
	select {
	case msg := <-done:
		return msg, false
	case <-time.After(limit):
		return "", true
	}
}
