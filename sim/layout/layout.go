// Package layout generates module trees on a simulated disk: arr.ai source
// files that tag themselves and list their imports, data files, go.mod
// sentinels (also nested), secrets outside every module root, decoys.
package layout

import (
	"fmt"
	"path"
	"sort"
	"strings"

	"aaverif/simfs"
	"aaverif/tape"
)

// Imp is one import inside a generated file.
type Imp struct {
	Target   *File
	Spelling string // the text between `//` and the end, e.g. `{./a/x}` or `[//encoding.json]{/d/c.json}`
	Rooted   bool
	Explicit bool // explicit decoder
}

// File is one generated file.
type File struct {
	Path    string // absolute
	Kind    string // arrai, json, yaml, yml, txt, csv
	Tag     string
	Imports []*Imp
	Content string
	ModRoot string // nearest directory at or above holding go.mod ("" if none)
	Empty   bool   // txt only: zero bytes
}

// Layout is one generated tree.
type Layout struct {
	Base    string // everything lives below Base
	Top     string // directory of the project
	HasMod  bool
	Files   []*File
	Mains   []*File
	Secrets map[string]string
	Sents   map[string]string // go.mod path -> content
	Twins   []string          // extension-less files next to x.arrai files (never the right target)
}

// Dir is the directory of f.
func (f *File) Dir() string { return path.Dir(f.Path) }

var dirPool = []string{"", "", "a", "a/b", "c", "a/b/d", "inner", "inner/z"}
var namePool = []string{"x", "y", "z", "lib", "util", "main", "x"}

// Opts tunes generation.
type Opts struct {
	MaxFiles  int
	Data      bool // data files with implicit/explicit decoders
	NestedMod bool
	Mains     int
}

// Gen generates an acyclic layout below base (an absolute directory).
func Gen(t *tape.Tape, base string, o Opts) *Layout {
	l := &Layout{Base: base, Secrets: map[string]string{}, Sents: map[string]string{}}
	l.HasMod = t.Draw(4) != 0
	depth := t.Draw(3)
	l.Top = base
	for i := 0; i < depth; i++ {
		l.Top += "/" + []string{"m", "w", "p"}[i]
	}
	if l.Top == base {
		l.Top = base + "/m"
	}
	if l.HasMod {
		// the first line names the module; its ending varies (LF, CRLF, trailing blank) as editors leave it
		ending := []string{"\n", "\n", "\r\n", " \n", "\n"}[t.Draw(5)]
		l.Sents[l.Top+"/go.mod"] = fmt.Sprintf("module example.com/mod%d%s\ngo 1.20\n", t.Draw(3), ending)
		if o.NestedMod && t.Bool(1, 3) {
			// a nested sentinel only has to exist for source evaluation: also empty, or starting with a comment
			l.Sents[l.Top+"/inner/go.mod"] = []string{"module example.com/inner\n", "", "// nested module\nmodule example.com/inner\n", "module example.com/inner\n"}[t.Draw(4)]
		}
	}
	if !l.HasMod && o.NestedMod && t.Bool(1, 3) {
		// no module at the top, but a module below it: a script outside any module imports into one
		l.Sents[l.Top+"/inner/go.mod"] = "module example.com/inner\n"
	}
	n := t.Range(2, o.MaxFiles)
	used := map[string]bool{}
	for i := 0; i < n; i++ {
		d := dirPool[t.Draw(len(dirPool))]
		name := namePool[t.Draw(len(namePool))]
		kind := "arrai"
		if o.Data && i < n-1 && t.Bool(1, 4) {
			kind = []string{"json", "yaml", "yml", "txt", "csv"}[t.Draw(5)]
		}
		p := path.Join(l.Top, d, name+"."+kind)
		if used[p] {
			continue
		}
		used[p] = true
		f := &File{Path: p, Kind: kind, Tag: fmt.Sprintf("%s#%d", strings.TrimPrefix(p, l.Top+"/"), i)}
		f.ModRoot = l.modRootOf(f.Dir())
		if kind == "txt" && t.Bool(1, 3) {
			f.Empty = true // a zero-byte data file is a file like any other
		}
		if kind == "arrai" {
			k := t.Range(0, 3)
			for j := 0; j < k && len(l.Files) > 0; j++ {
				tg := l.Files[t.Draw(len(l.Files))]
				if imp := l.spell(t, f, tg); imp != nil {
					f.Imports = append(f.Imports, imp)
				}
			}
		}
		f.Content = f.render()
		l.Files = append(l.Files, f)
	}
	// extension-less twins: `//{./x}` means x.arrai even when a file called just `x` sits next to it
	for _, f := range append([]*File(nil), l.Files...) {
		if f.Kind == "arrai" && t.Bool(1, 5) {
			l.Twins = append(l.Twins, strings.TrimSuffix(f.Path, ".arrai"))
		}
	}
	// a nested module whose files sit directly in its root and use module-rooted imports, reached from a file
	// of the outer module: the two roots must be told apart whichever directory is resolved first
	if _, nested := l.Sents[l.Top+"/inner/go.mod"]; nested && t.Bool(2, 3) {
		leaf := &File{Path: l.Top + "/inner/nleaf.arrai", Kind: "arrai", Tag: "inner/nleaf#n"}
		leaf.ModRoot = l.modRootOf(leaf.Dir())
		leaf.Content = leaf.render()
		mid := &File{Path: l.Top + "/inner/nmid.arrai", Kind: "arrai", Tag: "inner/nmid#n"}
		mid.ModRoot = l.modRootOf(mid.Dir())
		mid.Imports = []*Imp{{Target: leaf, Spelling: "{/nleaf}", Rooted: true}}
		mid.Content = mid.render()
		top := &File{Path: l.Top + "/ntop.arrai", Kind: "arrai", Tag: "ntop#n"}
		top.ModRoot = l.modRootOf(top.Dir())
		top.Imports = []*Imp{{Target: mid, Spelling: "{./inner/nmid}"}}
		if len(l.Files) > 0 && top.ModRoot != "" && t.Bool(1, 2) {
			// an outer rooted import first, so that the outer root is already cached
			for _, f := range l.Files {
				if f.Kind == "arrai" && f.ModRoot == top.ModRoot && strings.HasPrefix(f.Path, top.ModRoot+"/") {
					top.Imports = append([]*Imp{{Target: f, Spelling: "{/" + strings.TrimSuffix(strings.TrimPrefix(f.Path, top.ModRoot+"/"), ".arrai") + "}", Rooted: true}}, top.Imports...)
					break
				}
			}
		}
		top.Content = top.render()
		l.Files = append(l.Files, leaf, mid, top)
		// what `/nleaf` would mean if the nested root were mistaken for the outer one
		l.Secrets[l.Top+"/nleaf.arrai"] = `"SECRET-MARKER-7"`
	}
	// mains: arrai files, preferring late ones (they import the most)
	var arrai []*File
	for _, f := range l.Files {
		if f.Kind == "arrai" {
			arrai = append(arrai, f)
		}
	}
	if len(arrai) == 0 {
		f := &File{Path: l.Top + "/main.arrai", Kind: "arrai", Tag: "main#only"}
		f.ModRoot = l.modRootOf(f.Dir())
		f.Content = f.render()
		l.Files = append(l.Files, f)
		arrai = append(arrai, f)
	}
	nm := o.Mains
	if nm < 1 {
		nm = 1
	}
	for i := 0; i < nm; i++ {
		k := len(arrai) - 1 - t.Draw(min(len(arrai), 3))
		l.Mains = append(l.Mains, arrai[k])
	}
	l.Secrets[base+"/outside/secret.arrai"] = `"SECRET-MARKER-1"`
	l.Secrets[base+"/outside/secret"] = `"SECRET-MARKER-2"`
	l.Secrets["/etc/sim/secret.arrai"] = `"SECRET-MARKER-3"`
	l.Secrets[path.Dir(l.Top)+"/sibling.arrai"] = `"SECRET-MARKER-4"`
	// siblings whose names merely begin like the module root / the main file's directory
	l.Secrets[l.Top+"-secret/x.arrai"] = `"SECRET-MARKER-5"`
	for i, m := range l.Mains {
		l.Secrets[m.Dir()+"-secret/x.arrai"] = fmt.Sprintf(`"SECRET-MARKER-6%d"`, i)
	}
	return l
}

func (l *Layout) modRootOf(dir string) string {
	for d := dir; strings.HasPrefix(d, l.Base); d = path.Dir(d) {
		if _, ok := l.Sents[d+"/go.mod"]; ok {
			return d
		}
		if d == "/" {
			break
		}
	}
	return ""
}

// spell writes an import of tg as seen from f, or nil if no local form can reach it.
func (l *Layout) spell(t *tape.Tape, f, tg *File) *Imp {
	var forms []func() (string, bool)
	fd := f.Dir()
	if tg.Path != f.Path && strings.HasPrefix(tg.Path, fd+"/") {
		rel := strings.TrimPrefix(tg.Path, fd+"/")
		forms = append(forms, func() (string, bool) { return "./" + varySpelling(t, rel, tg.Kind), false })
	}
	if f.ModRoot != "" && strings.HasPrefix(tg.Path, f.ModRoot+"/") {
		rel := strings.TrimPrefix(tg.Path, f.ModRoot+"/")
		forms = append(forms, func() (string, bool) { return "/" + varySpelling(t, rel, tg.Kind), true })
	}
	if len(forms) == 0 {
		return nil
	}
	s, rooted := forms[t.Draw(len(forms))]()
	imp := &Imp{Target: tg, Rooted: rooted}
	dec := ""
	if tg.Kind != "arrai" && t.Bool(1, 3) {
		switch tg.Kind {
		case "json":
			dec = "[//encoding.json]"
		case "yaml", "yml":
			dec = "[//encoding.yaml]"
		case "csv":
			dec = "[//encoding.csv]"
		case "txt":
			dec = "[//encoding.bytes]"
		}
		imp.Explicit = dec != ""
	}
	imp.Spelling = dec + "{" + s + "}"
	return imp
}

// varySpelling returns one of several spellings of the same relative path.
func varySpelling(t *tape.Tape, rel, kind string) string {
	noext := rel
	if kind == "arrai" {
		noext = strings.TrimSuffix(rel, ".arrai")
	}
	segs := strings.Split(noext, "/")
	switch t.Draw(6) {
	case 0:
		return rel // with extension
	case 1:
		if len(segs) > 1 {
			return segs[0] + "/../" + noext
		}
	case 2:
		if len(segs) > 1 {
			return segs[0] + "//" + strings.Join(segs[1:], "/")
		}
	case 3:
		return "./" + noext
	}
	return noext
}

func (f *File) render() string {
	switch f.Kind {
	case "json":
		return fmt.Sprintf(`{"tag": %q, "n": [1, 2, {"k": null}]}`, f.Tag)
	case "yaml", "yml":
		return fmt.Sprintf("tag: %q\nlist:\n  - 1\n  - two\n", f.Tag)
	case "csv":
		return fmt.Sprintf("tag,n\n%s,1\n", strings.ReplaceAll(f.Tag, ",", ";"))
	case "txt":
		if f.Empty {
			return ""
		}
		return "text " + f.Tag + "\n"
	}
	var deps []string
	for _, im := range f.Imports {
		deps = append(deps, "//"+im.Spelling)
	}
	return fmt.Sprintf("(tag: %q, deps: [%s])", f.Tag, strings.Join(deps, ", "))
}

// Install writes the layout onto fs.
func (l *Layout) Install(fs *simfs.FS) {
	fs.PutDir(l.Base)
	for _, f := range l.Files {
		fs.Put(f.Path, f.Content)
	}
	for p, c := range l.Sents {
		fs.Put(p, c)
	}
	for _, p := range l.Twins {
		isDir := false
		for _, f := range l.Files {
			if strings.HasPrefix(f.Path, p+"/") {
				isDir = true // the name is taken by a directory
			}
		}
		for sp := range l.Sents {
			if strings.HasPrefix(sp, p+"/") {
				isDir = true
			}
		}
		if !isDir {
			fs.Put(p, `"EXTENSIONLESS-TWIN"`)
		}
	}
	for p, c := range l.Secrets {
		fs.Put(p, c)
	}
}

// Closure returns the files reachable from f (f included), sorted by path.
func Closure(f *File) []*File {
	seen := map[*File]bool{}
	var walk func(x *File)
	walk = func(x *File) {
		if seen[x] {
			return
		}
		seen[x] = true
		for _, im := range x.Imports {
			walk(im.Target)
		}
	}
	walk(f)
	var out []*File
	for x := range seen {
		out = append(out, x)
	}
	sort.Slice(out, func(i, j int) bool { return out[i].Path < out[j].Path })
	return out
}

// Describe lists the files for samples and messages.
func (l *Layout) Describe() []string {
	var out []string
	for p := range l.Sents {
		out = append(out, p)
	}
	for _, f := range l.Files {
		out = append(out, f.Path+": "+strings.ReplaceAll(f.Content, "\n", "\\n"))
	}
	sort.Strings(out)
	return out
}
