// Package tape is the single choice source of a simulated run.
//
// Every decision a run makes (workload, operands, sizes, knobs, which parked
// task runs next, which operation fails and how) is one Draw. In generation
// mode the value comes from a SplitMix64 stream seeded by the run seed and is
// recorded; in replay mode the recorded values are returned (reduced modulo the
// bound) and, once the recording is exhausted, every further Draw returns 0.
// Generators are written so that 0 is the simplest choice, which is what makes
// deleting or zeroing tape entries a shrinking step.
package tape

// Tape is a recorded or recording sequence of choices.
type Tape struct {
	state  uint64
	replay bool
	in     []uint64
	pos    int
	Out    []uint64 // every value actually returned, in order
}

// New returns a generating tape.
func New(seed uint64) *Tape { return &Tape{state: seed} }

// Replay returns a tape that replays rec.
func Replay(rec []uint64) *Tape { return &Tape{replay: true, in: rec} }

func (t *Tape) next() uint64 {
	t.state += 0x9e3779b97f4a7c15
	z := t.state
	z = (z ^ (z >> 30)) * 0xbf58476d1ce4e5b9
	z = (z ^ (z >> 27)) * 0x94d049bb133111eb
	return z ^ (z >> 31)
}

// Draw returns a value in [0, n). n <= 1 returns 0 without consuming.
func (t *Tape) Draw(n int) int {
	if n <= 1 {
		return 0
	}
	var v uint64
	if t.replay {
		if t.pos < len(t.in) {
			v = t.in[t.pos] % uint64(n)
			t.pos++
		}
	} else {
		v = t.next() % uint64(n)
	}
	t.Out = append(t.Out, v)
	return int(v)
}

// Bool is true with probability num/den; false is the simple choice.
func (t *Tape) Bool(num, den int) bool { return t.Draw(den) >= den-num }

// Range draws from [lo, hi] inclusive, lo being simplest.
func (t *Tape) Range(lo, hi int) int { return lo + t.Draw(hi-lo+1) }

// Len is the number of draws made so far.
func (t *Tape) Len() int { return len(t.Out) }

// Mix derives a run seed from a batch seed, a label and an index.
func Mix(seed uint64, label string, k uint64) uint64 {
	h := seed ^ 0x51afd7ed558ccd
	for _, c := range []byte(label) {
		h = (h ^ uint64(c)) * 0x100000001b3
	}
	h ^= k * 0x9e3779b97f4a7c15
	h = (h ^ (h >> 30)) * 0xbf58476d1ce4e5b9
	h = (h ^ (h >> 27)) * 0x94d049bb133111eb
	return h ^ (h >> 31)
}
