// Package enc is the harness's own canonical encoding of arr.ai data values.
// It walks Enumerator()/Tuple.Enumerator()/Number only and sorts members, so it
// depends neither on Less, nor on printing, nor on enumeration order.
package enc

import (
	"fmt"
	"math"
	"sort"
	"strings"

	"github.com/arr-ai/arrai/rel"
)

// Canon returns the canonical encoding of v. Non-data values (closures,
// native functions) are encoded by kind only.
func Canon(v rel.Value) string {
	var sb strings.Builder
	canon(&sb, v, 0)
	return sb.String()
}

func canon(sb *strings.Builder, v rel.Value, depth int) {
	if depth > 64 {
		sb.WriteString("<deep>")
		return
	}
	switch x := v.(type) {
	case nil:
		sb.WriteString("<nil>")
	case rel.Number:
		f := float64(x)
		if f == 0 {
			f = 0 // -0 == 0 in arr.ai
		}
		fmt.Fprintf(sb, "n%x", math.Float64bits(f))
	case rel.Tuple:
		type kv struct{ k, v string }
		var items []kv
		for e := x.Enumerator(); e.MoveNext(); {
			k, a := e.Current()
			var s strings.Builder
			canon(&s, a, depth+1)
			items = append(items, kv{k, s.String()})
		}
		sort.Slice(items, func(i, j int) bool {
			if items[i].k != items[j].k {
				return items[i].k < items[j].k
			}
			return items[i].v < items[j].v
		})
		sb.WriteString("(")
		for _, it := range items {
			fmt.Fprintf(sb, "%q:%s,", it.k, it.v)
		}
		sb.WriteString(")")
	case rel.Closure, *rel.NativeFunction:
		fmt.Fprintf(sb, "<fn %T>", v)
	case rel.Set:
		var items []string
		for e := x.Enumerator(); e.MoveNext(); {
			var s strings.Builder
			canon(&s, e.Current(), depth+1)
			items = append(items, s.String())
		}
		sort.Strings(items)
		sb.WriteString("{")
		for _, it := range items {
			sb.WriteString(it)
			sb.WriteString(",")
		}
		sb.WriteString("}")
	default:
		fmt.Fprintf(sb, "<%T>", v)
	}
}

// Class names the representation of a value (Go type, shortened).
func Class(v rel.Value) string {
	switch v.(type) {
	case rel.Number:
		return "num"
	case rel.String:
		return "str"
	case rel.Bytes:
		return "bytes"
	case rel.Array:
		return "array"
	case rel.Dict:
		return "dict"
	case rel.Relation:
		return "rel"
	case rel.EmptySet:
		return "empty"
	case rel.TrueSet:
		return "true"
	case rel.UnionSet:
		return "union"
	case rel.GenericSet:
		return "set"
	case rel.Closure, *rel.NativeFunction:
		return "fn"
	case rel.Tuple:
		return "tuple"
	case rel.Set:
		return "otherset"
	}
	return fmt.Sprintf("%T", v)
}

// Malformed reports whether v is, or contains, an Array whose backing slice
// starts or ends with a hole. The pinned tree can produce such arrays
// (`[1, , 2] without (@: 2, @item: 2)`) and then loops forever enumerating
// them; that is a defect of the never-hang property (C10, not decided here),
// so harnesses drop such values instead of wedging on them.
func Malformed(v rel.Value) bool { return malformed(v, 0) }

func malformed(v rel.Value, depth int) bool {
	if depth > 64 {
		return false
	}
	switch x := v.(type) {
	case rel.Array:
		vals := x.Values()
		if len(vals) > 0 && (vals[0] == nil || vals[len(vals)-1] == nil) {
			return true
		}
		for _, it := range vals {
			if it != nil && malformed(it, depth+1) {
				return true
			}
		}
		return false
	case rel.Number, rel.String, rel.Bytes:
		return false
	case rel.Tuple:
		for e := x.Enumerator(); e.MoveNext(); {
			_, a := e.Current()
			if malformed(a, depth+1) {
				return true
			}
		}
		return false
	case rel.Closure, *rel.NativeFunction:
		return false
	case rel.Set:
		for e := x.Enumerator(); e.MoveNext(); {
			if malformed(e.Current(), depth+1) {
				return true
			}
		}
	}
	return false
}
