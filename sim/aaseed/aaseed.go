// Package aaseed is the hash-seed seam. Its import path sorts before
// github.com/..., and it imports only github.com/arr-ai/hash, so Go runs its
// init right after hash's and before frozen's and rel's: no arrai value exists
// yet when the seeds are replaced. Both the public seed of arr-ai/hash and the
// private copy inside frozen (internal/pkg/hash) are set from VERIF_HASH_SEED.
package aaseed

import (
	"os"
	"strconv"
	_ "unsafe" // go:linkname

	"github.com/arr-ai/hash"
)

//go:linkname frozenKeySched github.com/arr-ai/frozen/internal/pkg/hash.aeskeysched
var frozenKeySched [128]byte

//go:linkname frozenHashKey github.com/arr-ai/frozen/internal/pkg/hash.hashkey
var frozenHashKey [4]uintptr

// Seed is the hash seed in force (0 = untouched, process-random).
var Seed uint64

// RealStdin is the process's real standard input (the worker protocol reads it). With
// VERIF_FAKE_STDIN=1 os.Stdin is replaced, before package syntax captures it for //os.stdin, by the read
// end of a pipe whose write end is FakeStdinW: the simulator then decides what //os.stdin delivers and when.
var (
	RealStdin  = os.Stdin
	FakeStdinW *os.File
)

func splitmix(x *uint64) uint64 {
	*x += 0x9e3779b97f4a7c15
	z := *x
	z = (z ^ (z >> 30)) * 0xbf58476d1ce4e5b9
	z = (z ^ (z >> 27)) * 0x94d049bb133111eb
	return z ^ (z >> 31)
}

func init() {
	if os.Getenv("VERIF_FAKE_STDIN") == "1" {
		if r, w, err := os.Pipe(); err == nil {
			os.Stdin, FakeStdinW = r, w
		}
	}
	s := os.Getenv("VERIF_HASH_SEED")
	if s == "" {
		return
	}
	v, err := strconv.ParseUint(s, 10, 64)
	if err != nil || v == 0 {
		return
	}
	Seed = v
	st := v
	var ks [128]byte
	for i := 0; i < 128; i += 8 {
		x := splitmix(&st)
		for j := 0; j < 8; j++ {
			ks[i+j] = byte(x >> (8 * j))
		}
	}
	var hk [4]uintptr
	for i := range hk {
		hk[i] = uintptr(splitmix(&st)) | 1
	}
	_ = hash.SetSeeds(ks[:], hk[:])
	frozenKeySched = ks
	frozenHashKey = hk
}
