// Package workerlib is the request loop of a worker process: one OS
// process = one worker. It reads one JSON request per line on stdin and
// answers "\x01VP BEGIN <id>" then "\x01VP END <id> <json>" on stdout. A
// worker that dies between the two is a crash verdict for that run, decided
// by the orchestrator.
package workerlib

import (
	"bufio"
	"encoding/json"
	"fmt"
	"os"
	"runtime/debug"
	"testing"

	"aaverif/aaseed"
	"aaverif/run"
	"aaverif/tape"
)

type request struct {
	ID      int64             `json:"id"`
	Engine  string            `json:"engine"`
	Seed    uint64            `json:"seed"`
	Tape    []uint64          `json:"tape"`
	Replay  bool              `json:"replay"`
	Knobs   map[string]string `json:"knobs"`
	Verbose bool              `json:"verbose"`
}

// Serve answers requests until stdin closes.
func Serve(t *testing.T) {
	if os.Getenv("VERIF_WORKER") == "" {
		t.Skip("not started by the orchestrator")
	}
	debug.SetMaxStack(256 << 20)
	in := bufio.NewReaderSize(aaseed.RealStdin, 1<<20)
	out := bufio.NewWriterSize(os.Stdout, 1<<16)
	defer out.Flush()
	for {
		line, err := in.ReadBytes('\n')
		if len(line) > 1 {
			var rq request
			if jerr := json.Unmarshal(line, &rq); jerr != nil {
				fmt.Fprintf(out, "\x01VP ERROR bad request: %v\n", jerr)
				out.Flush()
				continue
			}
			fmt.Fprintf(out, "\x01VP BEGIN %d\n", rq.ID)
			out.Flush()
			res := serve(t, rq)
			b, _ := json.Marshal(res)
			fmt.Fprintf(out, "\x01VP END %d %s\n", rq.ID, b)
			out.Flush()
		}
		if err != nil {
			return
		}
	}
}

func serve(t *testing.T, rq request) *run.Result {
	res := &run.Result{ID: rq.ID, Engine: rq.Engine, Seed: rq.Seed, HashSeed: aaseed.Seed}
	eng, ok := run.Lookup(rq.Engine)
	if !ok {
		res.V = &run.Violation{Oracle: "infra", Sig: "infra/no-engine", Msg: "unknown engine " + rq.Engine}
		return res
	}
	var tp *tape.Tape
	if rq.Replay {
		tp = tape.Replay(rq.Tape)
	} else {
		tp = tape.New(rq.Seed)
	}
	c := run.NewCtx(t, tp, rq.Knobs, rq.Verbose, res)
	c.Logf("seed %d hashseed %d engine %s", rq.Seed, aaseed.Seed, rq.Engine)
	eng(c)
	c.Finish()
	return res
}
