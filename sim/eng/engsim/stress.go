package engsim

import (
	"context"
	"fmt"
	"sync"

	"github.com/arr-ai/arrai/engine"
	"github.com/arr-ai/arrai/pkg/arraictx"
	"github.com/arr-ai/arrai/rel"
	"github.com/arr-ai/arrai/syntax"

	"aaverif/run"
)

func init() { run.Register("engstress", Stress) }

// Stress is the unscheduled companion of the bubble engine: many real client goroutines update the
// engine at once, half of them with an expression that fails on every state and half with constants
// that always evaluate. Whatever the interleaving, the first kind must always be refused and the
// second always acknowledged, and an observer of `$` must only ever be sent acknowledged constants,
// each at most once and never after a later one of the same client. The PRNG decides the workload;
// the interleaving is the Go runtime's (this batch finds what needs genuinely simultaneous callers,
// which the one-decision-at-a-time bubble cannot produce); its verdicts do not depend on it.
func Stress(c *run.Ctx) {
	t := c.Tape
	ctx := arraictx.InitRunCtx(context.Background())
	clients := t.Range(4, 12)
	per := t.Range(30, 150)
	e := engine.Start()
	bad, err := syntax.Compile(ctx, syntax.NoPath, "$.zzz")
	if err != nil {
		panic(err)
	}
	var mu sync.Mutex
	var seen []float64
	obsExpr, _ := syntax.Compile(ctx, syntax.NoPath, "$")
	cancel := e.Observe(obsExpr, func(v rel.Value) error {
		if tup, ok := v.(rel.Tuple); ok {
			if n, ok := tup.Get("v"); ok {
				mu.Lock()
				seen = append(seen, float64(n.(rel.Number)))
				mu.Unlock()
			}
		}
		return nil
	}, func(error) {})
	var wg sync.WaitGroup
	problems := make([]string, clients)
	for k := 0; k < clients; k++ {
		wg.Add(1)
		go func(k int) {
			defer wg.Done()
			failing := k%2 == 0
			for i := 0; i < per; i++ {
				if failing {
					if err := e.Update(bad); err == nil && problems[k] == "" {
						problems[k] = fmt.Sprintf("client %d: update `$.zzz` (fails on every state) was acknowledged (call %d)", k, i)
					}
					continue
				}
				n := k*100000 + i
				expr, cerr := syntax.Compile(ctx, syntax.NoPath, fmt.Sprintf("(v: %d)", n))
				if cerr != nil {
					continue
				}
				if err := e.Update(expr); err != nil && problems[k] == "" {
					problems[k] = fmt.Sprintf("client %d: update `(v: %d)` (a constant) was refused: %v", k, n, err)
				}
			}
		}(k)
	}
	wg.Wait()
	cancel()
	e.Stop()
	c.Res.Steps = clients * per
	c.Res.Nontrivial = true
	c.Res.State = run.Fingerprint(fmt.Sprint(clients, per))
	c.Logf("clients=%d updates-per-client=%d", clients, per)
	if t.Len()%2 == 0 || c.Verbose {
		c.Res.Sample = map[string]any{"clients": clients, "updates_per_client": per, "half_failing": true}
	}
	for _, p := range problems {
		if p != "" {
			c.Violate("update-answered", "C17/stress-answer-misrouted", "%s", p)
			return
		}
	}
	// the observer saw each acknowledged constant at most once, and every client's constants in order
	mu.Lock()
	defer mu.Unlock()
	last := map[int]float64{}
	for _, v := range seen {
		k := int(v) / 100000
		if prev, ok := last[k]; ok && v <= prev {
			c.Violate("observer-stream", "C17/stress-stream-order", "observer of `$` was sent %v after %v (client %d issues its constants in increasing order, one at a time)", v, prev, k)
			return
		}
		last[k] = v
	}
	want := 0
	for k := 0; k < clients; k++ {
		if k%2 == 1 {
			want += per
		}
	}
	if len(seen) != want {
		c.Violate("observer-stream", "C17/stress-stream-count", "observer of `$` subscribed before any update was sent %d states; %d updates were acknowledged", len(seen), want)
	}
}
