// Package engsim is the C17 engine, layer 1: the server engine's actor loop
// and its clients inside one synctest bubble, driven by a seeded history and
// checked against a sequential reference model (plus porcupine on the
// update/first-read register).
//
// Real: engine.Start/Update/Observe/cancel/Hangup/Stop, watcher.update/close,
// compiler and evaluator for the expressions. Stub: clients, observer
// callbacks (which fail, or block until released, on the simulator's command).
package engsim

import (
	"context"
	"fmt"
	"io"
	"sort"
	"strings"
	"sync"
	"testing/synctest"
	"time"

	"github.com/anishathalye/porcupine"
	"github.com/sirupsen/logrus"

	"github.com/arr-ai/arrai/engine"
	"github.com/arr-ai/arrai/pkg/arraictx"
	"github.com/arr-ai/arrai/rel"
	"github.com/arr-ai/arrai/syntax"

	"aaverif/run"
	"aaverif/tape"
)

func init() {
	run.Register("engsim", Run)
	logrus.SetOutput(io.Discard)
	logrus.SetLevel(logrus.PanicLevel)
}

const (
	behOK = iota
	behErr
	behBlock
	behPanic
)

type obs struct {
	idx     int
	src     string
	expr    rel.Expr
	param   uint64
	cancel  func()
	cancels int

	mu        sync.Mutex
	got       []string
	deliv     int
	closes    int
	closeErrs int

	// model
	subscribed   bool
	s0           int
	dead         bool
	deadCause    string
	unknown      bool // model cannot say what is required (expression failed on the state at subscription)
	initial      string
	required     []string
	cancelIssued bool
}

type call struct {
	kind     string // update, observe, cancel, hangup, stop
	desc     string
	done     bool
	err      error
	inv, ret int64
	o        *obs
	expr     rel.Expr
	src      string
	serial   int
}

type sim struct {
	c     *run.Ctx
	t     *tape.Tape
	ctx   context.Context
	e     *engine.Engine
	mu    sync.Mutex
	ev    int64
	gate  chan struct{} // blocked callbacks wait here
	nblk  int           // callbacks currently blocked
	obs   []*obs
	calls []*call
	pend  []*call // client calls not answered yet, in launch order (several only if all are updates)

	// model
	states    []rel.Value // installed states, states[0] = {}
	serials   []int
	nextSer   int
	lastCause string
	faults    bool

	lin []porcupine.Operation

	simSeconds int
}

type regIn struct {
	write  bool
	serial int
}
type regOut struct {
	ok     bool
	serial int
}

func mix(a uint64, b uint64) uint64 {
	h := a ^ (b+0x9e3779b97f4a7c15)*0xbf58476d1ce4e5b9
	h = (h ^ (h >> 30)) * 0xbf58476d1ce4e5b9
	h = (h ^ (h >> 27)) * 0x94d049bb133111eb
	return h ^ (h >> 31)
}

func (s *sim) tick() int64 {
	s.mu.Lock()
	defer s.mu.Unlock()
	s.ev++
	return s.ev
}

func serialOf(v rel.Value) int {
	switch x := v.(type) {
	case rel.Number:
		return int(x)
	case rel.Tuple:
		if a, ok := x.Get("v"); ok {
			if n, ok := a.(rel.Number); ok {
				return int(n)
			}
		}
	}
	return -1
}

func (s *sim) behaviour(o *obs, serial int) int {
	if !s.faults || serial < 0 {
		return behOK
	}
	switch mix(o.param, uint64(serial)) % 10 {
	case 0:
		return behErr
	case 1, 2:
		return behBlock
	case 3:
		return behPanic
	}
	return behOK
}

// onupdate runs on the engine goroutine.
func (s *sim) onupdate(o *obs) func(rel.Value) error {
	return func(v rel.Value) error {
		o.mu.Lock()
		first := o.deliv == 0
		o.deliv++
		o.got = append(o.got, v.String())
		o.mu.Unlock()
		if first {
			return nil // the delivery made on subscription is never faulted
		}
		switch s.behaviour(o, serialOf(v)) {
		case behErr:
			return fmt.Errorf("observer %d disconnects", o.idx)
		case behPanic:
			panic(fmt.Sprintf("observer %d: frontend cannot encode the value", o.idx))
		case behBlock:
			s.mu.Lock()
			s.nblk++
			s.mu.Unlock()
			<-s.gate
			s.mu.Lock()
			s.nblk--
			s.mu.Unlock()
		}
		return nil
	}
}

func (s *sim) onclose(o *obs) func(error) {
	return func(err error) {
		o.mu.Lock()
		o.closes++
		if err != nil {
			o.closeErrs++
		}
		o.mu.Unlock()
	}
}

func (s *sim) blocked() int {
	s.mu.Lock()
	defer s.mu.Unlock()
	return s.nblk
}

func (s *sim) compile(src string) rel.Expr {
	e, err := syntax.Compile(s.ctx, syntax.NoPath, src)
	if err != nil {
		panic(fmt.Sprintf("harness expression %q does not compile: %v", src, err))
	}
	return e
}

func (s *sim) modelEval(e rel.Expr, state rel.Value) (v rel.Value, err error) {
	defer func() {
		if r := recover(); r != nil {
			err = fmt.Errorf("panic: %v", r)
		}
	}()
	return e.Eval(s.ctx, rel.EmptyScope.With("$", state))
}

func (s *sim) cur() rel.Value { return s.states[len(s.states)-1] }

// launch starts a client call on its own goroutine.
func (s *sim) launch(cl *call, f func() error) {
	cl.inv = s.tick()
	s.calls = append(s.calls, cl)
	s.pend = append(s.pend, cl)
	go func() {
		err := f()
		ret := s.tick()
		s.mu.Lock()
		cl.err, cl.ret, cl.done = err, ret, true
		s.mu.Unlock()
	}()
}

func (s *sim) isDone(cl *call) bool {
	s.mu.Lock()
	defer s.mu.Unlock()
	return cl.done
}

// settle waits for quiescence and advances the model for the calls that were answered.
func (s *sim) settle() {
	synctest.Wait()
	var done, rest []*call
	for _, cl := range s.pend {
		if s.isDone(cl) {
			done = append(done, cl)
		} else {
			rest = append(rest, cl)
		}
	}
	s.pend = rest
	// Several calls answered in one quiescence window are all updates queued on one channel: the engine
	// took them first-in first-out, i.e. in launch order. (The return stamps the client goroutines take
	// afterwards race with each other and are not used for ordering.)
	for _, cl := range done {
		s.apply(cl)
	}
}

func (s *sim) apply(cl *call) {
	switch cl.kind {
	case "update":
		v, merr := s.modelEval(cl.expr, s.cur())
		s.c.Logf("  update #%d `%s` returned err=%v (model err=%v)", cl.serial, cl.src, cl.err != nil, merr != nil)
		out := regOut{ok: cl.err == nil}
		s.lin = append(s.lin, porcupine.Operation{ClientId: 0, Input: regIn{write: true, serial: cl.serial}, Call: cl.inv, Output: out, Return: cl.ret})
		switch {
		case merr != nil && cl.err == nil:
			s.c.Violate("failed-update-changes-nothing", "C17/update-acked-but-fails", "update `%s` fails to evaluate on the current state but was acknowledged", cl.src)
		case merr == nil && cl.err != nil:
			s.c.Violate("update-answered", "C17/update-refused", "update `%s` evaluates on the current state (%s) but was refused: %v", cl.src, s.cur(), cl.err)
		case merr == nil:
			s.install(v, cl.serial)
		default:
			s.c.Probe("update-failed-legitimately")
		}
	case "observe":
		o := cl.o
		o.subscribed = true
		o.s0 = len(s.states) - 1
		v, merr := s.modelEval(o.expr, s.cur())
		if merr != nil {
			o.dead, o.deadCause, o.unknown = true, "observer-eval-error", true
			s.lastCause = "observer-eval-error-at-subscription"
			s.c.Probe("observer-expr-fails-at-subscription")
		} else {
			o.initial = v.String()
		}
		s.c.Logf("  observe #%d `%s` subscribed at state %d", o.idx, o.src, o.s0)
	case "cancel":
		o := cl.o
		if !o.dead {
			o.dead, o.deadCause = true, "cancelled"
		}
		s.c.Logf("  cancel #%d returned", o.idx)
	case "hangup":
		for _, o := range s.obs {
			if o.subscribed && !o.dead {
				o.dead, o.deadCause = true, "hangup"
			}
		}
		s.c.Logf("  hangup returned")
	}
}

// install advances the model: a new state, and what every live observer must be sent.
func (s *sim) install(v rel.Value, serial int) {
	s.states = append(s.states, v)
	s.serials = append(s.serials, serial)
	for _, o := range s.obs {
		if !o.subscribed || o.dead {
			continue
		}
		ov, err := s.modelEval(o.expr, v)
		if err != nil {
			o.dead, o.deadCause = true, "observer-eval-error"
			s.lastCause = "observer-eval-error"
			s.c.Probe("observer-expr-fails-on-later-state")
			continue
		}
		o.required = append(o.required, ov.String())
		switch s.behaviour(o, serialOf(ov)) {
		case behErr:
			o.dead, o.deadCause = true, "callback-error"
			s.lastCause = "callback-error"
			s.c.Fault("observer-callback-error")
		case behPanic:
			o.dead, o.deadCause = true, "callback-panic"
			s.lastCause = "callback-panic"
			s.c.Fault("observer-callback-panic")
		case behBlock:
			s.c.Fault("observer-callback-blocks")
		}
	}
}

func (s *sim) wedged(where string) {
	cause := s.lastCause
	if cause == "" {
		cause = "no-observer-failure"
	}
	desc := "none"
	if len(s.pend) > 0 {
		desc = s.pend[0].desc
	}
	s.c.Violate("progress", "C17/wedge/"+cause, "%s: call `%s` is not answered although no observer callback is blocked (engine wedged; last observer event in the model: %s)", where, desc, cause)
}

func (s *sim) release() bool {
	if s.blocked() == 0 {
		return false
	}
	s.gate <- struct{}{}
	s.c.Logf("  release")
	return true
}

var updateKinds = []string{"$ +> (v: %d, k%d: %d)", "(v: %d, x: %d)", "(v: %d)", "$ +> (v: %d)", "$ +> (v: %d, x: %d)", "$.zzz", "(v: %d, w: $.zzz)", "(v: %d, x: %d)", "$", "same"}
var observeKinds = []string{"$", "$.v", "$.x", "42", "$.zzz", "($.v) + 1000", "$"}

func (s *sim) step(i int) {
	t := s.t
	s.c.Step()
	if len(s.pend) > 0 {
		// Calls wait behind a blocked callback. Several may wait only if they are all updates: they queue
		// on one channel, which Go serves first-in first-out, so the order stays the simulator's; calls of
		// different kinds would meet in a select, whose choice is not steerable.
		allUpdates := true
		for _, cl := range s.pend {
			if cl.kind != "update" {
				allUpdates = false
			}
		}
		if allUpdates && len(s.pend) < 3 && s.blocked() > 0 && t.Bool(1, 2) {
			s.nextSer++
			n := s.nextSer
			src := fmt.Sprintf("$ +> (v: %d, k%d: %d)", n, n, n)
			cl := &call{kind: "update", src: src, desc: "Update(" + src + ") [concurrent]", expr: s.compile(src), serial: n}
			s.c.Logf("step %d: %s", i, cl.desc)
			s.c.Probe("concurrent-updates-pending")
			s.launch(cl, func() error { return s.e.Update(cl.expr) })
			s.settle()
			return
		}
		if !s.release() {
			s.wedged(fmt.Sprintf("step %d", i))
			return
		}
		s.settle()
		return
	}
	k := t.Draw(12)
	switch {
	case k < 5:
		kind := updateKinds[t.Draw(len(updateKinds))]
		var n int
		switch kind {
		case "$":
			// an accepted update installs a state even if the value is the one already installed
			n = s.serials[len(s.serials)-1]
			s.c.Probe("update-installs-equal-state")
		case "same":
			n = s.serials[len(s.serials)-1]
			kind = "(v: %d, x: %d)"
			s.c.Probe("update-installs-equal-state")
		default:
			s.nextSer++
			n = s.nextSer
		}
		src := kind
		switch strings.Count(kind, "%d") {
		case 1:
			src = fmt.Sprintf(kind, n)
		case 2:
			src = fmt.Sprintf(kind, n, n)
		case 3:
			src = fmt.Sprintf(kind, n, n, n)
		}
		cl := &call{kind: "update", src: src, desc: "Update(" + src + ")", expr: s.compile(src), serial: n}
		s.c.Logf("step %d: %s", i, cl.desc)
		s.launch(cl, func() error { return s.e.Update(cl.expr) })
	case k < 8 && len(s.obs) < 5:
		src := observeKinds[t.Draw(len(observeKinds))]
		o := &obs{idx: len(s.obs), src: src, expr: s.compile(src), param: uint64(t.Draw(1 << 16))}
		s.obs = append(s.obs, o)
		cl := &call{kind: "observe", desc: fmt.Sprintf("Observe#%d(%s)", o.idx, src), o: o}
		s.c.Logf("step %d: %s", i, cl.desc)
		s.launch(cl, func() error {
			o.cancel = s.e.Observe(o.expr, s.onupdate(o), s.onclose(o))
			return nil
		})
	case k < 10 && len(s.obs) > 0:
		o := s.obs[t.Draw(len(s.obs))]
		if !o.subscribed || o.cancel == nil {
			return
		}
		o.cancels++
		if o.cancels > 1 {
			s.c.Probe("cancel-repeated")
		}
		if o.dead {
			s.c.Probe("cancel-of-dead-observer")
		}
		cl := &call{kind: "cancel", desc: fmt.Sprintf("cancel#%d (time %d)", o.idx, o.cancels), o: o}
		s.c.Logf("step %d: %s", i, cl.desc)
		s.launch(cl, func() error { o.cancel(); return nil })
	case k == 10 && t.Bool(1, 2):
		cl := &call{kind: "hangup", desc: "Hangup"}
		s.c.Logf("step %d: %s", i, cl.desc)
		s.launch(cl, func() error { s.e.Hangup(); return nil })
	default:
		if s.blocked() > 0 && t.Bool(1, 4) {
			// let simulated time pass while a callback is blocked: anything in the engine that waits on a
			// timer (there is none on the pinned tree) fires now; the bubble's clock is the only clock
			time.Sleep(3 * time.Second)
			s.simSeconds += 3
			s.c.Logf("step %d: clock +3s", i)
			s.c.Probe("clock-advanced-while-callback-blocked")
		} else if s.release() {
			s.c.Logf("step %d: release", i)
		}
	}
	s.settle()
	if len(s.pend) > 0 && s.blocked() == 0 {
		s.wedged(fmt.Sprintf("step %d", i))
	} else if len(s.pend) > 0 {
		s.c.Probe("call-pending-behind-blocked-callback")
	}
}

func (s *sim) body() {
	s.ctx = arraictx.InitRunCtx(context.Background())
	s.gate = make(chan struct{})
	s.states = []rel.Value{rel.None}
	s.serials = []int{0}
	s.e = engine.Start()
	synctest.Wait()
	steps := s.t.Range(3, 30)
	for i := 0; i < steps && !s.c.Failed(); i++ {
		s.step(i)
	}
	// drain: faults stop, every blocked callback is released
	for guard := 0; guard < 200 && !s.c.Failed(); guard++ {
		if s.blocked() == 0 {
			break
		}
		s.release()
		s.settle()
	}
	if !s.c.Failed() && len(s.pend) > 0 {
		s.settle()
		if len(s.pend) > 0 {
			s.wedged("after all releases")
		}
	}
	// bounded liveness: once faults stop one more update is acknowledged within one step
	if !s.c.Failed() {
		s.faults = false
		s.nextSer++
		src := fmt.Sprintf("(v: %d, x: %d)", s.nextSer, s.nextSer)
		cl := &call{kind: "update", src: src, desc: "final Update(" + src + ")", expr: s.compile(src), serial: s.nextSer}
		s.c.Logf("final: %s", cl.desc)
		s.launch(cl, func() error { return s.e.Update(cl.expr) })
		s.settle()
		for guard := 0; guard < 50 && len(s.pend) > 0 && s.release(); guard++ {
			s.settle()
		}
		if !s.c.Failed() && len(s.pend) > 0 {
			s.wedged("final update")
		}
	}
	if !s.c.Failed() {
		for guard := 0; guard < 50 && s.release(); guard++ {
			s.settle()
		}
		cl := &call{kind: "stop", desc: "Stop"}
		s.launch(cl, func() error { s.e.Stop(); return nil })
		s.settle()
		if len(s.pend) > 0 {
			s.wedged("stop")
		}
	}
}

func (s *sim) checkStreams() {
	for _, o := range s.obs {
		if !o.subscribed {
			continue
		}
		o.mu.Lock()
		got := append([]string(nil), o.got...)
		closes := o.closes
		o.mu.Unlock()
		s.c.Logf("observer #%d `%s` s0=%d dead=%v(%s) required=%v got=%v closes=%d", o.idx, o.src, o.s0, o.dead, o.deadCause, o.required, got, closes)
		if closes > 1 {
			s.c.Probe("observer-closed-more-than-once")
		}
		if o.unknown {
			continue
		}
		// The property requires one delivery per state installed after subscription; the delivery of
		// the state current at subscription is accepted but not demanded.
		cands := [][]string{got}
		if len(got) > 0 && got[0] == o.initial {
			cands = [][]string{got[1:], got}
		}
		var firstProblem func()
		okAny := false
		for _, rest := range cands {
			problem := s.matchStream(o, got, rest)
			if problem == nil {
				okAny = true
				break
			}
			if firstProblem == nil {
				firstProblem = problem
			}
		}
		if !okAny {
			firstProblem()
			return
		}
	}
}

// matchStream returns nil if rest satisfies the model, else a function that reports the violation.
func (s *sim) matchStream(o *obs, got, rest []string) func() {
	for i, want := range o.required {
		i, want := i, want
		if i >= len(rest) {
			return func() {
				s.c.Violate("observer-stream", "C17/stream/missing/"+causeOrLive(o), "observer #%d (`%s`, subscribed at state %d, %s) was sent %v; required after subscription %v: delivery %d is missing", o.idx, o.src, o.s0, causeOrLive(o), got, o.required, i)
			}
		}
		if rest[i] != want {
			return func() {
				s.c.Violate("observer-stream", "C17/stream/wrong-value/"+causeOrLive(o), "observer #%d (`%s`, subscribed at state %d, %s) was sent %v; required after subscription %v: delivery %d is %s, want %s", o.idx, o.src, o.s0, causeOrLive(o), got, o.required, i, rest[i], want)
			}
		}
	}
	if extra := len(rest) - len(o.required); extra > 0 {
		if o.dead {
			s.c.Probe("delivery-after-observer-ended")
		} else {
			return func() {
				s.c.Violate("observer-stream", "C17/stream/extra", "live observer #%d (`%s`) was sent %v, more than the %d states installed after it subscribed (%v)", o.idx, o.src, got, len(o.required), o.required)
			}
		}
	}
	return nil
}

func causeOrLive(o *obs) string {
	if o.dead {
		return "ended:" + o.deadCause
	}
	return "live"
}

var regModel = porcupine.Model{
	Init: func() interface{} { return 0 },
	Step: func(state, input, output interface{}) (bool, interface{}) {
		in, out := input.(regIn), output.(regOut)
		if in.write {
			if out.ok {
				return true, in.serial
			}
			return true, state
		}
		return out.serial == state.(int), state
	},
	DescribeOperation: func(input, output interface{}) string {
		return fmt.Sprintf("%+v -> %+v", input, output)
	},
}

// Run executes one history.
func Run(c *run.Ctx) {
	s := &sim{c: c, t: c.Tape, faults: c.Knob("faults", "on") == "on"}
	msg, stuck := run.Bubble(c.T, 25*time.Second, s.body)
	switch {
	case stuck:
		c.Violate("progress", "C17/wedge/never-quiescent", "the simulation never became quiescent: the engine goroutine or a caller is blocked for ever on something that is not a channel (a mutex)")
	case strings.Contains(msg, "deadlock"):
		c.Probe("bubble-ended-with-blocked-goroutines")
	case msg != "":
		c.Violate("no-crash", "C17/panic/"+run.ArraiFrame(msg), "panic: %s", msg)
	}
	if !c.Failed() {
		s.checkStreams()
	}
	// first reads: an observer of `$`/`$.v` reads the register when it subscribes
	if !c.Failed() {
		for _, cl := range s.calls {
			if cl.kind == "observe" && cl.done && (cl.o.src == "$" || cl.o.src == "$.v") && !cl.o.unknown {
				cl.o.mu.Lock()
				if len(cl.o.got) > 0 && cl.o.got[0] == cl.o.initial {
					s.lin = append(s.lin, porcupine.Operation{ClientId: 1 + cl.o.idx, Input: regIn{}, Call: cl.inv, Output: regOut{serial: s.serials[cl.o.s0]}, Return: cl.ret + 1})
				}
				cl.o.mu.Unlock()
			}
		}
		if len(s.lin) > 0 {
			switch porcupine.CheckOperationsTimeout(regModel, s.lin, 20*time.Second) {
			case porcupine.Illegal:
				c.Violate("linearizable", "C17/not-linearizable", "update/first-read history is not linearizable against a register: %v", s.lin)
			case porcupine.Unknown:
				c.Probe("porcupine-timeout")
			default:
				c.Probe("porcupine-ok")
			}
		}
	}
	if s.simSeconds > 0 {
		c.Res.Probes["simulated-seconds"] += s.simSeconds
	}
	nUpd, nObs := 0, 0
	var kinds []string
	for _, cl := range s.calls {
		kinds = append(kinds, cl.kind)
		switch cl.kind {
		case "update":
			nUpd++
		case "observe":
			nObs++
		}
	}
	c.Res.Nontrivial = nUpd >= 2 && nObs >= 1
	var shape []string
	for _, o := range s.obs {
		shape = append(shape, o.src+"/"+causeOrLive(o)+fmt.Sprint(len(o.required)))
	}
	sort.Strings(shape)
	c.Res.State = run.Fingerprint(strings.Join(kinds, ","), strings.Join(shape, "|"))
	if c.Tape.Len()%30 == 0 || c.Verbose {
		var descs []string
		for _, cl := range s.calls {
			descs = append(descs, cl.desc)
		}
		c.Res.Sample = map[string]any{"history": descs, "observers": shape}
	}
}
