// Package seeds is the C07 engine. The per-process hash seeds (arr-ai/hash and
// frozen's private copy) are behind a seam (aaverif/aaseed): one integer,
// VERIF_HASH_SEED, fixes the enumeration order of every set, dict and tuple in
// a worker process. One run generates, from the tape, a family of base values
// and a list of independent expressions of the data fragment; the orchestrator
// sends the same run to K worker processes with K different hash seeds and
// compares, per expression, the printed bytes.
//
// Real: the whole evaluator and printing path. Stub: none.
package seeds

import (
	"bytes"
	"context"
	"crypto/sha256"
	"encoding/hex"
	"fmt"
	"os"
	"path/filepath"
	"sort"
	"strings"

	"github.com/arr-ai/arrai/pkg/arrai"
	"github.com/arr-ai/arrai/pkg/arraictx"
	"github.com/arr-ai/arrai/pkg/ctxfs"
	"github.com/arr-ai/arrai/pkg/fu"
	"github.com/arr-ai/arrai/rel"
	"github.com/arr-ai/arrai/syntax"

	"aaverif/run"
	"aaverif/simfs"
	"aaverif/tape"
)

func init() { run.Register("seeds", Run) }

type expr struct {
	Feat string `json:"feat"`
	Src  string `json:"src"`
}

type gen struct{ t *tape.Tape }

func (g *gen) nums(n int, float bool) string {
	var parts []string
	seen := map[string]bool{}
	for len(parts) < n {
		var s string
		if float {
			s = fmt.Sprintf("%d.%d", g.t.Draw(40), 1+g.t.Draw(9))
			if g.t.Draw(4) == 0 {
				// magnitudes at which the spacing of doubles changes (2^53, 2^54) in cancelling pairs, and integral terms
				s = []string{"1e16", "-1e16", "1e-7", "3.3", "123456789.125", "9007199254740992", "-9007199254740992", "18014398509481984", "-18014398509481984", "3.0", "7.0", "1.0"}[g.t.Draw(12)]
			}
		} else {
			s = fmt.Sprint(g.t.Draw(60) - 10)
		}
		if !seen[s] {
			seen[s] = true
			parts = append(parts, s)
		}
	}
	return "{" + strings.Join(parts, ", ") + "}"
}

func (g *gen) strs(n int) string {
	var parts []string
	seen := map[string]bool{}
	for len(parts) < n {
		s := fmt.Sprintf("%c%c%d", 'a'+rune(g.t.Draw(6)), 'A'+rune(g.t.Draw(6)), g.t.Draw(30))
		if !seen[s] {
			seen[s] = true
			parts = append(parts, fmt.Sprintf("%q", s))
		}
	}
	return "{" + strings.Join(parts, ", ") + "}"
}

func (g *gen) rel(n int, names [2]string) string {
	var rows []string
	seen := map[string]bool{}
	for len(rows) < n {
		r := fmt.Sprintf("(%d, %d)", g.t.Draw(40), g.t.Draw(5))
		if !seen[r] {
			seen[r] = true
			rows = append(rows, r)
		}
	}
	return fmt.Sprintf("{|%s, %s| %s}", names[0], names[1], strings.Join(rows, ", "))
}

func (g *gen) dict(n int) string {
	var parts []string
	seen := map[string]bool{}
	for len(parts) < n {
		k := fmt.Sprintf("%c%d", 'a'+rune(g.t.Draw(8)), g.t.Draw(20))
		if !seen[k] {
			seen[k] = true
			parts = append(parts, fmt.Sprintf("%q: %d", k, g.t.Draw(50)))
		}
	}
	return "{" + strings.Join(parts, ", ") + "}"
}

func (g *gen) tuple(n int) string {
	var parts []string
	seen := map[string]bool{}
	for len(parts) < n {
		k := fmt.Sprintf("%c%c", 'a'+rune(g.t.Draw(12)), 'a'+rune(g.t.Draw(12)))
		if !seen[k] {
			seen[k] = true
			parts = append(parts, fmt.Sprintf("%s: %d", k, g.t.Draw(50)))
		}
	}
	return "(" + strings.Join(parts, ", ") + ")"
}

// catalogue of expressions over the bases N (ints), F (floats), S (strings), R, R2 (relations), D, D2 (dicts), T, T2 (tuples)
var catalogue = []expr{
	{"print-set", "N"}, {"print-set", "S"}, {"print-rel", "R"}, {"print-dict", "D"}, {"print-tuple", "T"}, {"print-set", "F"},
	{"repr", "//str.repr(S)"}, {"repr", "//str.repr(R)"}, {"repr", "//str.repr(D)"}, {"repr", "//str.repr(T)"},
	{"interpolation", "$\"${N}|${D}|${T}\""}, {"interpolation", "$\"${S::, }\""}, {"interpolation", "$\"${N orderby .::;}\""},
	{"orderby-injective", "N orderby ."}, {"orderby-injective", "S orderby ."}, {"orderby-injective", "R orderby [.x, .y]"}, {"orderby-injective", "F orderby -."},
	{"orderby-injective", "D orderby .@"}, {"order-injective", "N order \\a \\b a > b"},
	{"rank-injective", "R rank (k: [.x, .y])"},
	// several rank keys, rows tied on one of them (tied rows share a rank whatever order they are met in)
	{"rank-ties", "R rank (a: .y, b: .x)"}, {"rank-ties", "(S => (x: 1, y: .)) rank (r: .x, s: .y)"}, {"rank-ties", "(R rank (a: .y, b: -.x)) orderby [.x, .y]"},
	{"rank-ties", "(R <&> R2) rank (a: .y, b: .z, c: .x)"},
	{"superimposed-item", "N => (@: . % 3, @item: .)"}, {"superimposed-item", "N => (@: 0, @item: .)"}, {"superimposed-item", "(S => (@: 0, @item: .))(0)"},
	{"superimposed-char", "N => (@: . % 2, @char: 65 + (. % 26))"}, {"superimposed-byte", "N => (@: . % 2, @byte: 65 + (. % 26))"},
	{"keyed-distinct", "N => (@: ., @item: . * 2)"}, {"keyed-distinct", "N => (@: ., @char: 97 + (. % 26))"},
	{"sum-int", "N sum ."}, {"sum-int", "R sum .x"}, {"sum-float", "F sum ."}, {"mean-float", "F mean ."}, {"mean-int", "N mean ."},
	{"max", "F max ."}, {"min", "N min ."}, {"median", "N median ."}, {"count", "(N | F) count"},
	{"nest", "R nest |x|g"}, {"nest", "R nest ~|y|g"}, {"join", "R <&> R2"}, {"join", "R -&- R2"}, {"join", "R <-> R2"}, {"join", "(R <&> R2) orderby [.x, .y, .z]"},
	// ordering of tuples by the tuples themselves, and printing of sets that mix kinds and shapes
	{"orderby-tuples", "R orderby ."}, {"orderby-tuples", "(R <&> R2) orderby ."}, {"orderby-tuples", "W orderby ."}, {"orderby-tuples", "W rank (r: .)"},
	{"orderby-tuples", "(W => (. +> (k0: 0))) orderby ."},
	{"mixed-set", "H"}, {"mixed-set", "//str.repr(H)"}, {"mixed-set", "H orderby ."}, {"mixed-set", "H | N"}, {"mixed-set", "{true, (a: 1)}"},
	{"mixed-set", "{{}, (a: 1), (b: 2)}"}, {"mixed-set", "$\"${H}\""}, {"mixed-set", "H => [.]"},
	// relations as set members and sort keys (their rows have ten attributes), and relations called like functions
	{"relations-ordered", "{W where .k0 < 5, W where .k0 >= 5, W where .k1 < 4} orderby ."}, {"relations-ordered", "{W where .k0 < 5, W where .k0 >= 5}"},
	// relations built as separate literals (their builder takes the column
	// order from the first tuple's names, which from nine attributes on is
	// an enumeration of a hashed map), rows ordered oppositely by a and b
	{"relations-ordered", "{ {(a:1,b:9,c:0,d:0,e:0,f:0,g:0,h:0,i:0),(a:5,b:1,c:0,d:0,e:0,f:0,g:0,h:0,i:0)}, {(a:2,b:8,c:0,d:0,e:0,f:0,g:0,h:0,i:0),(a:3,b:0,c:0,d:0,e:0,f:0,g:0,h:0,i:0)} }"},
	{"relations-ordered", "{ {(a:1,b:9,c:0,d:0,e:0,f:0,g:0,h:0,i:0),(a:5,b:1,c:0,d:0,e:0,f:0,g:0,h:0,i:0)}, {(a:2,b:8,c:0,d:0,e:0,f:0,g:0,h:0,i:0),(a:3,b:0,c:0,d:0,e:0,f:0,g:0,h:0,i:0)} } orderby ."},
	{"relations-ordered", "{(k:1,a:1,b:9,c:0,d:0,e:0,f:0,g:0,h:0,i:0),(k:1,a:5,b:1,c:0,d:0,e:0,f:0,g:0,h:0,i:0),(k:2,a:2,b:8,c:0,d:0,e:0,f:0,g:0,h:0,i:0),(k:2,a:3,b:0,c:0,d:0,e:0,f:0,g:0,h:0,i:0)} nest ~|k|g orderby .g >> .k"},
	{"relations-ordered", "{(a:1,b:9,c:0,d:0,e:0,f:0,g:0,h:0,i:0,j:1),(a:5,b:1,c:0,d:0,e:0,f:0,g:0,h:0,i:0,j:1)} < {(a:2,b:8,c:0,d:0,e:0,f:0,g:0,h:0,i:0,j:1),(a:3,b:0,c:0,d:0,e:0,f:0,g:0,h:0,i:0,j:1)}"},
	{"relations-ordered", "(W => \\t (W where .k0 <= t.k0)) orderby ."}, {"relations-ordered", "{W where .k0 < 6} < {W where .k1 < 6}"},
	{"call-multi", "(R => (@: .y, x: .x))(1)"}, {"call-multi", "(R => (@: .y, x: .x, w: 1))(2)"}, {"call-multi", "(R2 => (@: .z, y: .y))(3)"},
	// chains of joins: rows of a join result are joined again, one-to-many, then counted or printed
	{"join-chain", "(R <&> R2) <&> R3"}, {"join-chain", "((R <&> R2) <&> R3) count"}, {"join-chain", "((R <&> R2) <&> R3) => .w"},
	{"join-chain", "(R <&> R2 <&> R3) orderby [.x, .y, .z, .w]"},
	// the same relation joined, extended and joined again on the same key, in an order the enumeration decides
	{"join-after-extension", "N => \\i ((cond {i = (N min .): R, _: R with (x: 100 + i, y: 1)}) <&> R2) count"},
	{"join-after-extension", "N => \\i ((cond {i = (N max .): R, _: R | {(x: 200 + i, y: 2)}}) <&> R2) count"},
	// --out=dir: what ends up on the (simulated) disk, and whether the command failed, must not depend on the
	// order in which the description's entries are enumerated
	{"out-dir", "D >> \\v $\"${v}\""}, {"out-dir", "(D >> \\v $\"${v}\") +> {\"zzbad\": (file: 42)}"},
	{"out-dir", "(D >> \\v $\"${v}\") +> {\"a0\": (ifExists: \"bogus\", file: \"x\")}"},
	{"zero-sign", "(N => . * 0) => 1 / ."}, {"zero-sign", "(N => . % 1) => 1 / ."}, {"zero-sign", "(N => -(. * 0)) => //str.repr(1 / .)"},
	{"map", "N => . % 7"}, {"map", "R => .y"}, {"where", "N where . % 2 = 0"}, {"where", "R where .y > 1"},
	{"union", "N | (N => . + 3)"}, {"intersect", "N & (N => . + 3)"}, {"diff", "N &~ (N => . + 3)"},
	{"merge-dict", "D +> D2"}, {"merge-tuple", "T +> T2"}, {"dict-union", "D | D2"},
	{"set-pattern", "cond N {{0, ...}: 1, _: 2}"}, {"set-pattern", "let {-1, ...r} = N | {-1}; r"},
	{"set-pattern-shorter-than-set", "cond (N | {-11}) {{x, -11}: x, _: 999}"}, {"set-pattern-shorter-than-set", "let {x, -11} = N | {-11}; x"},
	{"set-pattern-shorter-than-set", "cond S {{x}: x, {x, y}: [x, y], _: 'many'}"},
	{"cond-set", "cond {N where . > 20: 1, S: 2}"},
	{"rel-union", "//rel.union({N, N => . * 2, {1000}})"},
	{"seq", "//seq.concat((S orderby .) >> [., .])"}, {"seq", "//seq.join(\",\", S orderby .)"}, {"seq", "(N orderby .) >> (. * 2)"},
	{"json", "//encoding.json.encode(D)"}, {"json", "//encoding.json.encode(N orderby .)"}, {"json", "//encoding.json.encode((d: D, r: R orderby [.x, .y]))"},
	{"yaml", "//encoding.yaml.encode(D)"},
	// encoders and printers of the standard library applied to unordered values directly
	{"json", "//encoding.json.encode(N)"}, {"json", "//encoding.json.encode(S)"}, {"json", "//encoding.json.encode_indent(D)"},
	{"json", "//encoding.json.encode(//encoding.json.decode(//encoding.json.encode(D)))"},
	{"yaml", "//encoding.yaml.encode(N)"}, {"yaml", "//encoding.yaml.encode((d: D, s: S))"},
	{"pretty", "//fmt.pretty(D)"}, {"pretty", "//fmt.pretty(T)"}, {"pretty", "//fmt.pretty(N)"}, {"pretty", "//fmt.pretty(R)"}, {"pretty", "//fmt.pretty(H)"},
	{"bits", "//bits.mask({1, 3, 5, 7, 9, 11, 13, 15, 17, 19, 21, 23, 25})"}, {"bits", "//bits.set(33554431 - 1024)"},
	{"tuple-dict", "//tuple(D)"}, {"tuple-dict", "//dict(T)"}, {"tuple-map", "T :> . + 1"},
	{"call-multi", "(R => (@: .y, @value: .x))(1)"}, {"call-multi", "(N => (@: . % 4, @value: .))(2)"},
	{"seqmap-dict", "D >> (. + 1)"}, {"dict-keys", "D => .@"}, {"dict-vals", "(D => .@value) orderby ."},
	{"nested", "R nest |x|g => (. +> (n: .g count))"}, {"nested", "{N, S, F} => (. count)"}, {"nested", "(N => {., . + 1}) orderby (. orderby .)"},
	{"any-single", "(N where . = (N max .)) => . + 1"},
	{"to-array", "//seq.concat([N orderby ., F orderby .])"},
	{"str-ops", "//str.lower(//seq.join(\"\", S orderby .))"},
	{"reduce", "//rel.union(N => {., -.})"},
}

func sha(b []byte) string {
	h := sha256.Sum256(b)
	return hex.EncodeToString(h[:])[:20]
}

// probeOrder fingerprints the raw enumeration order of a fixed set and tuple:
// it shows that different hash seeds really permute.
func probeOrder() string {
	var vals []rel.Value
	for i := 0; i < 64; i++ {
		vals = append(vals, rel.NewNumber(float64(i)))
	}
	s := rel.MustNewSet(vals...)
	var sb strings.Builder
	for e := s.Enumerator(); e.MoveNext(); {
		fmt.Fprintf(&sb, "%v,", e.Current())
	}
	var attrs []rel.Attr
	for i := 0; i < 16; i++ {
		attrs = append(attrs, rel.NewAttr(fmt.Sprintf("k%d", i), rel.NewNumber(float64(i))))
	}
	for e := rel.NewTuple(attrs...).Enumerator(); e.MoveNext(); {
		n, _ := e.Current()
		sb.WriteString(n + ",")
	}
	return sha([]byte(sb.String()))
}

// corpusFiles lists the arr.ai sources shipped with the repository that can be evaluated offline.
func corpusFiles() []string {
	root := os.Getenv("VERIF_REPO")
	if root == "" {
		root = "/repo"
	}
	var out []string
	for _, dir := range []string{"examples", "contrib", "docs/docs", "syntax/stdlib", "syntax/embed"} {
		filepath.Walk(filepath.Join(root, dir), func(p string, info os.FileInfo, err error) error {
			if err != nil || info.IsDir() || !strings.HasSuffix(p, ".arrai") || strings.Contains(p, "/os/") {
				return nil
			}
			b, err := os.ReadFile(p)
			if err != nil {
				return nil
			}
			src := string(b)
			for _, bad := range []string{"//{github", "//{http", "//os.", "//net.", "//log.", "//deprecated.", "//{arr.ai"} {
				if strings.Contains(src, bad) {
					return nil
				}
			}
			out = append(out, p)
			return nil
		})
	}
	sort.Strings(out)
	return out
}

// runCorpus evaluates one shipped source file under this process's hash seed.
func runCorpus(c *run.Ctx) {
	files := corpusFiles()
	if len(files) == 0 {
		c.Probe("no-corpus")
		return
	}
	p := files[c.Tape.Draw(len(files))]
	b, _ := os.ReadFile(p)
	ctx := arraictx.InitRunCtx(context.Background())
	eval := func() (out []byte, repr string, failed bool) {
		_, _, panicked := run.Guard(func() {
			v, err := syntax.EvaluateExpr(ctx, p, string(b))
			if err != nil {
				failed = true
				return
			}
			if _, isFn := v.(rel.Closure); isFn {
				repr = "<function>"
				return
			}
			var buf bytes.Buffer
			if err := arrai.OutputValue(ctx, v, &buf, ""); err != nil {
				failed = true
				return
			}
			out = buf.Bytes()
			repr = fu.Repr(v)
		})
		if panicked {
			failed = true
		}
		return
	}
	o1, r1, f1 := eval()
	o2, _, f2 := eval()
	c.Step()
	name := p[strings.LastIndex(p[:strings.LastIndex(p, "/")], "/")+1:]
	c.Logf("corpus file %s", name)
	txt := string(o1)
	if len(txt) > 240 {
		txt = txt[:240] + "..."
	}
	c.Res.Out = map[string]any{"lets": "", "order": probeOrder(), "exprs": []map[string]any{{
		"feat": "corpus:" + name, "src": "file " + name, "out": sha(o1), "repr": sha([]byte(r1)), "err": f1, "stable": bytes.Equal(o1, o2) && f1 == f2, "text": txt}}}
	c.Res.Nontrivial = !f1
	c.Res.State = run.Fingerprint("corpus", name)
	if c.Tape.Len()%1 == 0 {
		c.Res.Sample = map[string]any{"corpus_file": name, "evaluates": !f1}
	}
}

// Run evaluates the run's expressions under this process's hash seed.
func Run(c *run.Ctx) {
	if c.Knob("mode", "") == "corpus" {
		runCorpus(c)
		return
	}
	t := c.Tape
	g := &gen{t}
	size := func() int { return t.Range(9, 24) } // frozen keeps insertion order for <= 8 members
	// W: same-named tuples of ten attributes whose attributes order them in opposite ways; H: a set of values of
	// different kinds and tuple shapes
	var ws []string
	nw := g.t.Range(9, 14)
	for i := 0; i < nw; i++ {
		var as []string
		for k := 0; k < 10; k++ {
			v := i
			if k%2 == 1 {
				v = nw - i
			}
			as = append(as, fmt.Sprintf("k%d: %d", k, v+g.t.Draw(2)*100*(k%3)))
		}
		ws = append(ws, "("+strings.Join(as, ", ")+")")
	}
	wsrc := "{" + strings.Join(ws, ", ") + "}"
	hpool := []string{"(a: 1)", "(a: 2)", "(b: 1)", "(a: 1, b: 2)", "(a: 2, b: 1)", "(c: 0)", "3", "4.5", `"s"`, `"t"`, "[1, 2]", "[3]", "{4}", "{5, 6}", "true", "{}", `{"k": 1}`, "(a: (b: 1))", "{(a: 1)}", "{|x| (1), (2)}", `<<"b">>`}
	var hs []string
	hseen := map[string]bool{}
	for len(hs) < 10 {
		h := hpool[g.t.Draw(len(hpool))]
		if !hseen[h] {
			hseen[h] = true
			hs = append(hs, h)
		}
	}
	hsrc := "{" + strings.Join(hs, ", ") + "}"
	names := []string{"N", "F", "S", "R", "R2", "D", "D2", "T", "T2", "R3", "W", "H"}
	srcs := []string{g.nums(size(), false), g.nums(size(), true), g.strs(size()), g.rel(size(), [2]string{"x", "y"}), g.rel(size(), [2]string{"y", "z"}),
		g.dict(size()), g.dict(size()), g.tuple(size()), g.tuple(size()), g.rel(size(), [2]string{"w", "z"}), wsrc, hsrc}
	lets := ""
	for i, n := range names {
		lets += fmt.Sprintf("let %s = %s; ", n, srcs[i])
	}
	m := t.Range(4, 10)
	var exprs []expr
	for i := 0; i < m; i++ {
		exprs = append(exprs, catalogue[t.Draw(len(catalogue))])
	}
	ctx := arraictx.InitRunCtx(context.Background())
	// the bases are parsed and evaluated once per run (under this process's hash seed) and bound in a scope
	scope := rel.EmptyScope
	for i, n := range names {
		v, err := syntax.EvaluateExpr(ctx, "", srcs[i])
		if err != nil {
			c.Logf("base %s does not evaluate", n)
			c.Probe("base-eval-failed")
			return
		}
		scope = scope.With(n, v)
	}
	type one struct {
		Feat   string `json:"feat"`
		Src    string `json:"src"`
		Out    string `json:"out"`  // sha of the printed bytes
		Repr   string `json:"repr"` // sha of fu.Repr
		Err    bool   `json:"err"`
		Stable bool   `json:"stable"` // two evaluations in this process printed the same bytes
		Text   string `json:"text"`   // first bytes of the output, for messages
	}
	var outs []one
	outDir := false
	eval := func(src string) (out []byte, repr string, failed bool) {
		msg, _, p := run.Guard(func() {
			v, err := syntax.EvalWithScope(ctx, "", src, scope)
			if err != nil {
				failed = true
				return
			}
			if outDir {
				disk := simfs.New("disk", "/w")
				disk.PutDir("/w")
				octx := ctxfs.RuntimeFsOnto(ctx, disk)
				oerr := arrai.OutputValue(octx, v, nil, "dir:/w/out")
				var lines []string
				for p, c := range disk.Snapshot() {
					lines = append(lines, p+"="+c)
				}
				sort.Strings(lines)
				out = []byte(fmt.Sprintf("failed=%v\n%s\n", oerr != nil, strings.Join(lines, "\n")))
				repr = "out-dir"
				return
			}
			var buf bytes.Buffer
			if err := arrai.OutputValue(ctx, v, &buf, ""); err != nil {
				failed = true
				return
			}
			out = buf.Bytes()
			repr = fu.Repr(v)
		})
		if p {
			_ = msg
			failed = true
		}
		return
	}
	for _, e := range exprs {
		outDir = e.Feat == "out-dir"
		o1, r1, f1 := eval(e.Src)
		o2, _, f2 := eval(e.Src)
		c.Step()
		txt := string(o1)
		if len(txt) > 240 {
			txt = txt[:240] + "..."
		}
		outs = append(outs, one{Feat: e.Feat, Src: e.Src, Out: sha(o1), Repr: sha([]byte(r1)), Err: f1, Stable: bytes.Equal(o1, o2) && f1 == f2, Text: txt})
		// the event log deliberately leaves out the output: it legitimately differs between hash seeds when a leak exists
		c.Logf("expr %s: %s", e.Feat, e.Src)
	}
	c.Res.Out = map[string]any{"lets": lets, "exprs": outs, "order": probeOrder()}
	c.Res.Nontrivial = true
	var feats []string
	for _, e := range exprs {
		feats = append(feats, e.Feat)
	}
	c.Res.State = run.Fingerprint(strings.Join(feats, ","))
	if t.Len()%15 == 0 || c.Verbose {
		c.Res.Sample = map[string]any{"bases": lets, "exprs": exprs}
	}
}
