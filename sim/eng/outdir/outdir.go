// Package outdir is the C19 engine: `--out=dir:PATH` / `--out=file:PATH`
// against a simulated disk with a pre-existing state, checked against a
// reference model of the documented rules, then re-run with an I/O error
// injected at every disk operation of the fault-free run.
//
// Real: syntax (the description is produced by evaluating generated source),
// arrai.OutputValue and everything below it. Stub: the disk (simfs).
package outdir

import (
	"context"
	"fmt"
	"sort"
	"strings"

	"github.com/arr-ai/arrai/pkg/arrai"
	"github.com/arr-ai/arrai/pkg/arraictx"
	"github.com/arr-ai/arrai/pkg/ctxfs"
	"github.com/arr-ai/arrai/rel"
	"github.com/arr-ai/arrai/syntax"

	"aaverif/run"
	"aaverif/simfs"
	"aaverif/tape"
)

func init() { run.Register("outdir", Run) }

const outPath = "/w/out"

// ent is one entry of a generated description.
type ent struct {
	name     string
	kind     string // str, bytes, empty, dict, tuple, or inv:<what>
	content  string // file bytes for str/bytes
	kids     []*ent // dict entries (kind dict, or tuple with field dir)
	ifExists string // tuple only; "" = omitted
	field    string // tuple only: dir, file or ""
	fkind    string // tuple+file: str, bytes, empty
	src      string // literal source for inv:* kinds
	badName  bool
}

type gen struct {
	t        *tape.Tape
	invalidP int // one in invalidP entries is invalid (0 = never)
	badNameP int
	tags     map[string]bool
}

var names = []string{"a", "b", "c", "d.txt", "e"}
var badNames = []string{"../x", "..", ".", "../../esc", "a/../../../w/esc2", "./", "a/..", "/", "."}

// selfNames are the bad names that resolve to the directory that holds the entry.
var selfNames = map[string]bool{".": true, "./": true, "a/..": true, "/": true}

// describedFiles collects the plain file entries reachable from es through well-named plain
// dictionaries only, with their paths; selfOnly reports whether every bad name met on the way is a
// self name.
func describedFiles(es []*ent, dir string, out map[string]string, selfOnly *bool) {
	for _, e := range es {
		if e.badName {
			if !selfNames[e.name] {
				*selfOnly = false
			}
			continue
		}
		switch e.kind {
		case "str", "bytes", "empty":
			out[dir+"/"+e.name] = e.content
		case "dict":
			describedFiles(e.kids, dir+"/"+e.name, out, selfOnly)
		}
	}
}

var invalidSrcs = []struct{ what, src string }{
	{"number", "42"},
	{"array", "[1, 2]"},
	{"set", "{1, 2}"},
	{"true", "{()}"},
	{"empty-tuple", "()"},
	{"tuple-nofields", "(foo: 1)"},
	{"ifexists-bogus", `(ifExists: "bogus", file: "x")`},
	{"ifexists-number", `(ifExists: 1, file: "x")`},
	{"merge-file", `(ifExists: "merge", file: "x")`},
	{"remove-file", `(ifExists: "remove", file: "x")`},
	{"remove-dir", `(ifExists: "remove", dir: {})`},
	{"replace-nofield", `(ifExists: "replace")`},
	{"merge-nofield", `(ifExists: "merge")`},
	{"fail-nofield", `(ifExists: "fail")`},
	{"dir-number", "(dir: 5)"},
	{"dir-string", `(dir: "str")`},
	{"file-number", "(file: 5)"},
	{"file-dict", `(file: {"k": "v"})`},
	{"nonstring-key", `{1: "x"}`},
	{"nested-number", `{"ok": "fine", "n": 7}`},
	{"tuple-dir-bad-entry", `(dir: {"q": [1]})`},
}

func (g *gen) content() (kind, content string) {
	switch g.t.Draw(5) {
	case 0:
		return "empty", ""
	case 1, 2:
		return "bytes", []string{"B1", "bytes\n", "\x01\x02"}[g.t.Draw(3)]
	default:
		return "str", []string{"hello", "x", "line1\nline2\n", "héllo"}[g.t.Draw(4)]
	}
}

func (g *gen) entries(depth int) []*ent {
	n := g.t.Range(0, 4)
	if depth == 0 {
		n = g.t.Range(1, 5)
	}
	used := map[string]bool{}
	var out []*ent
	for i := 0; i < n; i++ {
		name := names[g.t.Draw(len(names))]
		bad := false
		if g.badNameP > 0 && g.t.Draw(g.badNameP) == g.badNameP-1 {
			name = badNames[g.t.Draw(len(badNames))]
			bad = true
		}
		if used[name] {
			continue
		}
		used[name] = true
		e := g.entry(depth)
		e.name = name
		e.badName = bad
		out = append(out, e)
	}
	return out
}

func (g *gen) entry(depth int) *ent {
	t := g.t
	if g.invalidP > 0 && t.Draw(g.invalidP) == g.invalidP-1 {
		iv := invalidSrcs[t.Draw(len(invalidSrcs))]
		return &ent{kind: "inv:" + iv.what, src: iv.src}
	}
	switch c := t.Draw(10); {
	case c < 4:
		k, s := g.content()
		return &ent{kind: k, content: s}
	case c < 6 && depth < 3:
		kids := g.entries(depth + 1)
		if len(kids) == 0 {
			// `{}` by itself is an empty file (documented): an empty directory needs (dir: {})
			return &ent{kind: "empty"}
		}
		return &ent{kind: "dict", kids: kids}
	default:
		e := &ent{kind: "tuple"}
		e.ifExists = []string{"", "fail", "ignore", "merge", "remove", "replace", "replace", "merge"}[t.Draw(8)]
		switch e.ifExists {
		case "remove":
		case "merge":
			e.field = "dir"
		default:
			e.field = []string{"file", "dir"}[t.Draw(2)]
		}
		if depth >= 3 && e.field == "dir" && e.ifExists != "merge" {
			e.field = "file"
		}
		switch e.field {
		case "dir":
			if depth < 3 {
				e.kids = g.entries(depth + 1)
			}
		case "file":
			e.fkind, e.content = g.content()
		}
		return e
	}
}

func quote(s string) string { return fmt.Sprintf("%q", s) }

func fileSrc(kind, content string, alt int) string {
	switch kind {
	case "empty":
		return []string{`""`, "{}", "[]", `<<"">>`}[alt%3]
	case "bytes":
		var parts []string
		for _, b := range []byte(content) {
			parts = append(parts, fmt.Sprint(int(b)))
		}
		if alt%2 == 0 || len(parts) < 2 || content[0] < 'A' || content[0] > 'z' {
			return "<<" + strings.Join(parts, ", ") + ">>"
		}
		return "<<" + quote(content[:1]) + ", " + strings.Join(parts[1:], ", ") + ">>"
	default:
		if alt%3 == 1 && len(content) > 1 {
			return quote(content[:1]) + " ++ " + quote(content[1:])
		}
		return quote(content)
	}
}

func (g *gen) render(e *ent) string {
	switch e.kind {
	case "str", "bytes", "empty":
		return fileSrc(e.kind, e.content, g.t.Draw(3))
	case "dict":
		return g.renderDict(e.kids)
	case "tuple":
		var parts []string
		if e.ifExists != "" {
			parts = append(parts, "ifExists: "+quote(e.ifExists))
		}
		switch e.field {
		case "dir":
			parts = append(parts, "dir: "+g.renderDict(e.kids))
		case "file":
			parts = append(parts, "file: "+fileSrc(e.fkind, e.content, g.t.Draw(3)))
		}
		return "(" + strings.Join(parts, ", ") + ")"
	}
	return e.src
}

func (g *gen) renderDict(kids []*ent) string {
	if len(kids) == 0 {
		return "{}"
	}
	var parts []string
	for _, k := range kids {
		parts = append(parts, quote(k.name)+": "+g.render(k))
	}
	if len(parts) > 1 && g.t.Bool(1, 5) {
		// built by merging two dict literals: another construction route for the same value
		return "({" + strings.Join(parts[:1], ", ") + "} +> {" + strings.Join(parts[1:], ", ") + "})"
	}
	return "{" + strings.Join(parts, ", ") + "}"
}

// ---- reference model (documentation: docs/docs/cli/eval.md) ----

type tree map[string]string // path -> "D" | "F"+bytes

func (tr tree) clone() tree {
	o := tree{}
	for k, v := range tr {
		o[k] = v
	}
	return o
}
func (tr tree) exists(p string) bool { _, ok := tr[p]; return ok }
func (tr tree) isDir(p string) bool  { return tr[p] == "D" }
func (tr tree) removeAll(p string) {
	for k := range tr {
		if k == p || strings.HasPrefix(k, p+"/") {
			delete(tr, k)
		}
	}
}

type model struct {
	tr         tree
	invalid    []string // kinds of invalid entries that take effect
	failExists bool
	collision  bool
	lenient    bool // documentation silent on whether this must be refused: refusal (unchanged) and success are both accepted
	badName    bool
	shapes     map[string]bool
}

func (m *model) shape(s string) { m.shapes[s] = true }

// staticInvalid reports invalid content below e without touching the tree.
func staticInvalid(e *ent) bool {
	if strings.HasPrefix(e.kind, "inv:") {
		return true
	}
	for _, k := range e.kids {
		if staticInvalid(k) || k.badName {
			return true
		}
	}
	return false
}

func (m *model) putFile(p, content string) {
	if m.tr.isDir(p) {
		m.collision = true
		m.shape("file-over-dir")
		m.tr.removeAll(p)
	}
	m.tr[p] = "F" + content
}

func (m *model) dir(p string, kids []*ent, underReplaced bool) {
	if m.tr.exists(p) && !m.tr.isDir(p) {
		m.collision = true
		m.shape("dir-over-file")
		m.tr.removeAll(p)
	}
	m.tr[p] = "D"
	for _, k := range kids {
		m.apply(k, p+"/"+k.name, underReplaced)
	}
}

func (m *model) apply(e *ent, p string, underReplaced bool) {
	if e.badName {
		m.badName = true
		return
	}
	switch e.kind {
	case "str", "bytes", "empty":
		if m.tr.exists(p) {
			m.shape("file-over-existing")
		}
		m.putFile(p, e.content)
	case "dict":
		if m.tr.isDir(p) {
			m.shape("merge-into-existing")
		}
		m.dir(p, e.kids, underReplaced)
	case "tuple":
		ex := m.tr.exists(p)
		mode := e.ifExists
		if mode == "" {
			mode = map[string]string{"dir": "merge", "file": "replace"}[e.field]
		}
		if ex {
			m.shape(mode + "-existing")
		}
		switch {
		case mode == "remove":
			m.tr.removeAll(p)
		case mode == "fail" && ex:
			m.failExists = true
		case mode == "fail" && underReplaced:
			// the target only stopped existing because an ancestor is being replaced: a dry run
			// cannot see that; refusing is accepted.
			m.lenient = true
			m.content(e, p, underReplaced)
		case mode == "ignore" && ex:
			if staticInvalid(e) {
				m.lenient = true
				m.shape("invalid-under-ignored")
			}
		case mode == "replace" && ex && e.ifExists == "":
			// Omitted ifExists: the documented default for a file is 'replace', but whether that
			// default also substitutes a directory is not spelled out; putFile records the
			// file-over-directory case as a collision (failure or the described tree accepted).
			m.content(e, p, underReplaced)
		case mode == "replace" && ex:
			m.tr.removeAll(p)
			m.content(e, p, true)
		default:
			m.content(e, p, underReplaced)
		}
	default:
		m.invalid = append(m.invalid, strings.TrimPrefix(e.kind, "inv:"))
	}
}

func (m *model) content(e *ent, p string, underReplaced bool) {
	if e.field == "dir" {
		m.dir(p, e.kids, underReplaced)
	} else {
		m.putFile(p, e.content)
	}
}

// ---- scenario ----

type scenario struct {
	mode    string // dir | file
	src     string
	ents    []*ent
	prior   *simfs.FS
	priorTr tree
	topKind string // for mode file
}

func genPrior(t *tape.Tape, fs *simfs.FS) {
	fs.PutDir("/w")
	fs.Put("/w/keep.txt", "outside-1")
	fs.Put("/w/other/x", "outside-2")
	fs.PutDir("/w/esc.d")
	switch t.Draw(8) {
	case 0:
		return // PATH does not exist
	case 1:
		fs.PutDir(outPath)
		return
	}
	fs.PutDir(outPath)
	var fill func(dir string, depth int)
	fill = func(dir string, depth int) {
		n := t.Range(0, 4)
		for i := 0; i < n; i++ {
			name := names[t.Draw(len(names))]
			p := dir + "/" + name
			if _, ok := fs.Snapshot()[p]; ok {
				continue
			}
			if t.Bool(2, 5) && depth < 3 {
				fs.PutDir(p)
				fill(p, depth+1)
			} else {
				fs.Put(p, "old:"+name+fmt.Sprint(depth))
			}
		}
	}
	fill(outPath, 0)
}

func diffTrees(want, got tree) string {
	var ds []string
	for k, v := range want {
		g, ok := got[k]
		switch {
		case !ok:
			ds = append(ds, fmt.Sprintf("missing %s (%s)", k, short(v)))
		case g != v:
			ds = append(ds, fmt.Sprintf("%s is %s, want %s", k, short(g), short(v)))
		}
	}
	for k, v := range got {
		if _, ok := want[k]; !ok {
			ds = append(ds, fmt.Sprintf("unexpected %s (%s)", k, short(v)))
		}
	}
	sort.Strings(ds)
	if len(ds) > 6 {
		ds = append(ds[:6], "...")
	}
	return strings.Join(ds, "; ")
}

func short(v string) string {
	if v == "D" {
		return "dir"
	}
	return fmt.Sprintf("file %q", v[1:])
}

func outside(tr tree) tree {
	o := tree{}
	for k, v := range tr {
		if k != outPath && !strings.HasPrefix(k, outPath+"/") {
			o[k] = v
		}
	}
	return o
}

func mutOutside(ops []simfs.Op) *simfs.Op {
	for i := range ops {
		o := &ops[i]
		if !o.Mut || !o.OK {
			continue
		}
		for _, p := range []string{o.Path, o.Path2} {
			if p != "" && p != outPath && !strings.HasPrefix(p, outPath+"/") {
				return o
			}
		}
	}
	return nil
}

type result struct {
	err      error
	panicMsg string
	frame    string
	tr       tree // what the disk holds
	dur      tree // what a crash right after the command would leave (un-synced writes lost)
	ops      []simfs.Op
}

func execute(value rel.Value, fs *simfs.FS, out string) result {
	ctx := arraictx.InitRunCtx(context.Background())
	ctx = ctxfs.RuntimeFsOnto(ctx, fs)
	ctx = ctxfs.SourceFsOnto(ctx, fs)
	var r result
	msg, frame, p := run.Guard(func() { r.err = arrai.OutputValue(ctx, value, nil, out) })
	if p {
		r.panicMsg, r.frame = msg, frame
	}
	r.tr = fs.Snapshot()
	r.dur = fs.DurableSnapshot()
	r.ops = fs.Ops()
	return r
}

// Run executes one scenario.
func Run(c *run.Ctx) {
	t := c.Tape
	g := &gen{t: t}
	switch c.Knob("invalid", "some") {
	case "none":
	case "always":
		g.invalidP = 3
	default:
		if t.Bool(1, 2) {
			g.invalidP = 6
		}
	}
	if c.Knob("badnames", "off") == "on" {
		g.badNameP = 8
	}
	fileMode := c.Knob("mode", "dir") == "file"

	prior := simfs.New("disk", "/w")
	genPrior(t, prior)
	priorTr := tree(prior.Snapshot())

	var src string
	var ents []*ent
	var fileEnt *ent
	if fileMode {
		fileEnt = g.entry(3)
		if fileEnt.kind == "tuple" || fileEnt.kind == "dict" {
			fileEnt = &ent{kind: "inv:file-mode-" + fileEnt.kind, src: g.render(fileEnt)}
		}
		src = g.render(fileEnt)
	} else {
		ents = g.entries(0)
		src = g.renderDict(ents)
	}
	c.Logf("prior %v", sortedTree(priorTr))
	c.Logf("src %s", src)

	ectx := arraictx.InitRunCtx(context.Background())
	var value rel.Value
	var everr error
	if msg, frame, p := run.Guard(func() { value, everr = syntax.EvaluateExpr(ectx, "", src) }); p {
		c.Logf("description evaluation panicked (%s at %s); scenario dropped", msg, frame)
		c.Probe("desc-eval-panic")
		return
	}
	if everr != nil {
		c.Logf("description evaluation failed: %v; scenario dropped", everr)
		c.Probe("desc-eval-error")
		return
	}

	out := "dir:" + outPath
	target := outPath
	if fileMode {
		target = outPath + "/f.bin"
		if t.Bool(1, 2) {
			target = "/w/new.bin"
		}
		out = []string{"file:", "f:", ":", ""}[t.Draw(4)] + target
	}

	// model
	m := &model{tr: priorTr.clone(), shapes: map[string]bool{}}
	if fileMode {
		if strings.HasPrefix(fileEnt.kind, "inv:") {
			m.invalid = append(m.invalid, strings.TrimPrefix(fileEnt.kind, "inv:"))
		} else {
			if !m.tr.isDir(parentOf(target)) {
				m.collision = true
			}
			m.putFile(target, fileEnt.content)
		}
	} else {
		if m.tr.exists(outPath) && !m.tr.isDir(outPath) {
			m.collision = true
		}
		m.tr[outPath] = "D"
		for _, e := range ents {
			m.apply(e, outPath+"/"+e.name, false)
		}
	}

	fs := prior.Clone("disk")
	r := execute(value, fs, out)
	c.Res.Steps += len(r.ops)
	for _, o := range r.ops {
		c.Logf("op %d %s %s ok=%v", o.Seq, o.Kind, o.Path, o.OK)
	}
	c.Logf("result err=%v tree=%v", r.err != nil, sortedTree(r.tr))

	shape := shapeOf(m)
	c.Res.State = run.Fingerprint(shape, fmt.Sprint(len(ents)))
	c.Res.Nontrivial = len(r.ops) > 2
	if t.Len()%40 == 0 || c.Verbose {
		c.Res.Sample = map[string]any{"out": out, "description": src, "prior": sortedTree(priorTr), "model": shape}
	}
	for s := range m.shapes {
		c.Probe("shape:" + s)
	}

	if r.panicMsg != "" {
		c.Violate("no-crash", "C19/panic/"+r.frame, "OutputValue panicked: %s (description %s)", r.panicMsg, src)
		return
	}
	// Nothing outside PATH is touched -- always.
	if !fileMode {
		if o := mutOutside(r.ops); o != nil {
			c.Violate("outside-untouched", "C19/escape/"+nameClass(ents), "mutating %s on %s, outside %s (description %s)", o.Kind, o.Path, outPath, src)
			return
		}
		if d := diffTrees(outside(priorTr), outside(r.tr)); d != "" {
			c.Violate("outside-untouched", "C19/escape/"+nameClass(ents), "tree outside %s changed: %s (description %s)", outPath, d, src)
			return
		}
	}
	switch {
	case m.badName:
		// Entry names that are not a single path element: the documentation does not say what
		// they mean; only confinement (above) is demanded.
		c.Probe("bad-name-scenario")
		// One thing follows from the statement under every reading of a name that resolves to
		// the directory holding the entry ('.', './', 'a/..', '/'): whether such an entry is
		// refused or taken to mean that directory, a reported success means that the files
		// which well-named plain entries describe are there ("contains exactly the files and
		// bytes the result dictionary describes"). Demanded only when the rest of the
		// description is valid and free of collisions.
		selfOnly := true
		want := map[string]string{}
		describedFiles(ents, outPath, want, &selfOnly)
		if selfOnly && r.err == nil && len(m.invalid) == 0 && !m.failExists && !m.collision && !m.lenient {
			c.Probe("self-name-success")
			var miss []string
			for p, content := range want {
				if r.tr[p] != "F"+content {
					miss = append(miss, p)
				}
			}
			sort.Strings(miss)
			if len(miss) > 0 {
				c.Violate("described-tree", "C19/self-name-destroys-described-files", "success reported, but %v described by well-named plain entries are missing or different; tree now %v (description %s)", miss, sortedTree(r.tr), src)
			}
		}
		return
	case len(m.invalid) > 0 || m.failExists:
		why := "fail-exists"
		if len(m.invalid) > 0 {
			why = m.invalid[0]
		}
		c.Probe("model-reject")
		if r.err == nil {
			c.Violate("invalid-refused", "C19/invalid-accepted/"+why, "description is invalid (%s) but the command reported success; tree now %v (description %s)", why, sortedTree(r.tr), src)
			return
		}
		if d := diffTrees(priorTr, r.tr); d != "" {
			c.Violate("invalid-changes-nothing", "C19/reject-changed-tree/"+why+"/"+ctxShape(m), "description is invalid (%s), the command failed (%v) but the tree changed: %s (description %s)", why, firstLine(r.err), d, src)
			return
		}
		return
	case m.collision:
		c.Probe("model-collision")
		if r.err == nil {
			if d := diffTrees(m.tr, r.tr); d != "" {
				c.Violate("exact-tree", "C19/wrong-tree/collision", "command succeeded but the tree is not the described one: %s (description %s)", d, src)
			}
		}
		return
	case m.lenient:
		c.Probe("model-lenient")
		if r.err != nil {
			if d := diffTrees(priorTr, r.tr); d != "" {
				c.Violate("invalid-changes-nothing", "C19/reject-changed-tree/lenient/"+ctxShape(m), "command refused (%v) but the tree changed: %s (description %s)", firstLine(r.err), d, src)
			}
			return
		}
		if d := diffTrees(m.tr, r.tr); d != "" {
			c.Violate("exact-tree", "C19/wrong-tree/"+ctxShape(m), "command succeeded but the tree is not the described one: %s (description %s)", d, src)
		}
		return
	}
	c.Probe("model-ok")
	if r.err != nil {
		c.Violate("valid-accepted", "C19/valid-refused/"+ctxShape(m), "description is valid but the command failed: %v (description %s; prior %v)", firstLine(r.err), src, sortedTree(priorTr))
		return
	}
	if d := diffTrees(m.tr, r.tr); d != "" {
		c.Violate("exact-tree", "C19/wrong-tree/"+ctxShape(m), "tree is not the described one: %s (description %s; prior %v)", d, src, sortedTree(priorTr))
		return
	}
	if d := diffTrees(m.tr, r.dur); d != "" {
		c.Violate("exact-tree", "C19/not-durable", "the command reported success but not every byte was synced: after a crash the tree would be: %s (description %s)", d, src)
		return
	}

	// Fault enumeration: the i-th disk operation of the fault-free run fails.
	if c.Knob("faults", "off") != "enum" {
		return
	}
	pairs := 0
	for i, o := range r.ops {
		i, o := i, o
		fs2 := prior.Clone("disk")
		fired := false
		fs2.Before = func(seq int, kind, p string) *simfs.Fault {
			if seq == i {
				fired = true
				return &simfs.Fault{Partial: o.N / 2}
			}
			return nil
		}
		r2 := execute(value, fs2, out)
		c.Res.Steps += len(r2.ops)
		if !fired {
			c.Probe("fault-position-not-reached")
			continue
		}
		c.Fault(o.Kind)
		c.Logf("fault at op %d (%s %s): err=%v", i, o.Kind, o.Path, r2.err != nil)
		if r2.panicMsg != "" {
			c.Violate("no-crash", "C19/fault-panic/"+o.Kind+"/"+r2.frame, "I/O error at op %d (%s %s): OutputValue panicked: %s (description %s)", i, o.Kind, o.Path, r2.panicMsg, src)
			return
		}
		if r2.err != nil {
			c.Probe("fault-reported")
			continue
		}
		c.Probe("fault-tolerated")
		if d := diffTrees(m.tr, r2.dur); d != "" {
			c.Violate("error-reported", "C19/fault-swallowed/"+o.Kind+"/not-durable", "I/O error injected at op %d (%s %s): the command reported success although the bytes never became durable: after a crash %s (description %s)", i, o.Kind, o.Path, d, src)
			return
		}
		if d := diffTrees(m.tr, r2.tr); d != "" {
			c.Violate("error-reported", "C19/fault-swallowed/"+o.Kind, "I/O error injected at op %d (%s %s): the command reported success but the tree is not the described one: %s (description %s)", i, o.Kind, o.Path, d, src)
			return
		}
		// fault sequences: the command survived this fault, so a second one can still land inside it
		if pairs >= 40 {
			continue
		}
		for j := i + 1; j < len(r2.ops) && pairs < 40; j++ {
			j, o2 := j, r2.ops[j]
			pairs++
			fs3 := prior.Clone("disk")
			fs3.Before = func(seq int, kind, p string) *simfs.Fault {
				if seq == i || seq == j {
					return &simfs.Fault{Partial: o2.N / 2}
				}
				return nil
			}
			r3 := execute(value, fs3, out)
			c.Res.Steps += len(r3.ops)
			c.Fault("second:" + o2.Kind)
			if r3.panicMsg != "" {
				c.Violate("no-crash", "C19/fault-panic/"+o.Kind+"+"+o2.Kind+"/"+r3.frame, "I/O errors at ops %d (%s) and %d (%s %s): OutputValue panicked: %s (description %s)", i, o.Kind, j, o2.Kind, o2.Path, r3.panicMsg, src)
				return
			}
			if r3.err == nil {
				c.Probe("fault-pair-tolerated")
				if d := diffTrees(m.tr, r3.tr); d != "" {
					c.Violate("error-reported", "C19/fault-swallowed/"+o.Kind+"+"+o2.Kind, "I/O errors injected at ops %d (%s %s) and %d (%s %s): the command reported success but the tree is not the described one: %s (description %s)", i, o.Kind, o.Path, j, o2.Kind, o2.Path, d, src)
					return
				}
			} else {
				c.Probe("fault-pair-reported")
			}
		}
	}
}

func parentOf(p string) string {
	i := strings.LastIndex(p, "/")
	if i <= 0 {
		return "/"
	}
	return p[:i]
}

func firstLine(err error) string {
	s := err.Error()
	if i := strings.Index(s, "\n"); i >= 0 {
		s = s[:i]
	}
	return s
}

func sortedTree(tr tree) []string {
	var out []string
	for k, v := range tr {
		if v == "D" {
			out = append(out, k+"/")
		} else {
			out = append(out, k+"="+fmt.Sprintf("%q", v[1:]))
		}
	}
	sort.Strings(out)
	return out
}

func shapeOf(m *model) string {
	var s []string
	for k := range m.shapes {
		s = append(s, k)
	}
	sort.Strings(s)
	v := "ok"
	switch {
	case m.badName:
		v = "badname"
	case len(m.invalid) > 0:
		v = "invalid:" + strings.Join(m.invalid, ",")
	case m.failExists:
		v = "fail-exists"
	case m.collision:
		v = "collision"
	case m.lenient:
		v = "lenient"
	}
	return v + "|" + strings.Join(s, ",")
}

// ctxShape names the ifExists context of the scenario for signatures.
func ctxShape(m *model) string {
	var s []string
	for k := range m.shapes {
		if strings.HasSuffix(k, "-existing") && k != "file-over-existing" && k != "merge-into-existing" {
			s = append(s, k)
		}
	}
	sort.Strings(s)
	if len(s) == 0 {
		return "plain"
	}
	return strings.Join(s, "+")
}

func nameClass(ents []*ent) string {
	var found []string
	var walk func(es []*ent)
	walk = func(es []*ent) {
		for _, e := range es {
			if e.badName {
				switch {
				case selfNames[e.name]:
					found = append(found, "self")
				case e.name == "..":
					found = append(found, "dots")
				default:
					found = append(found, "dotdot-slash")
				}
			}
			walk(e.kids)
		}
	}
	walk(ents)
	sort.Strings(found)
	if len(found) == 0 {
		return "plain-names"
	}
	return found[0]
}
