// Package race is the C11 engine (b): unscheduled goroutines released from one
// barrier evaluate programs over shared, never-inspected values and shared
// compiled expressions in a binary built with -race. The PRNG decides the
// workload (values, programs, goroutine count, first-use or shared-compiled
// mode); the race detector's vector clocks make the verdict independent of
// the actual interleaving for the accesses that execute. One OS process per
// run, because process-wide lazies can be used for the first time only once.
//
// Real: everything. Stub: none.
package race

import (
	"context"
	"fmt"
	"io"
	"os"
	"regexp"
	"sort"
	"strings"
	"sync"
	"time"

	"github.com/sirupsen/logrus"

	"github.com/arr-ai/arrai/pkg/arraictx"
	"github.com/arr-ai/arrai/pkg/ctxfs"
	"github.com/arr-ai/arrai/pkg/importcache"
	"github.com/arr-ai/arrai/rel"
	"github.com/arr-ai/arrai/syntax"

	"aaverif/aaseed"
	"aaverif/run"
	"aaverif/simfs"
	"aaverif/tape"
)

func init() {
	run.Register("race", Run)
	logrus.SetOutput(io.Discard) // deprecation warnings
}

func num(n int) rel.Value { return rel.NewNumber(float64(n)) }

func str(s string) rel.Value { return rel.NewString([]rune(s)) }

// sharedValues builds values through the rel API only (no parser, no stdlib), so that the
// process-wide lazies of package syntax are still untouched when the goroutines start.
func sharedValues(t *tape.Tape) (rel.Scope, []string) {
	sc := rel.EmptyScope
	var desc []string
	// wide tuple: name caches are computed on first use
	var attrs []rel.Attr
	nt := t.Range(4, 14)
	for i := 0; i < nt; i++ {
		attrs = append(attrs, rel.NewAttr(fmt.Sprintf("a%d", i), num(i)))
	}
	sc = sc.With("t", rel.NewTuple(attrs...))
	sc = sc.With("t2", rel.NewTuple(append([]rel.Attr{}, attrs...)...))
	desc = append(desc, fmt.Sprintf("t,t2: tuple of %d attrs", nt))
	// relation r(x, y), r2(y, z): joins build the index cache on first use
	nr := t.Range(8, 60)
	var rows, rows2 []rel.Value
	for i := 0; i < nr; i++ {
		rows = append(rows, rel.NewTuple(rel.NewAttr("x", num(i)), rel.NewAttr("y", num(i%7))))
		rows2 = append(rows2, rel.NewTuple(rel.NewAttr("y", num(i%7)), rel.NewAttr("z", num(i*3))))
	}
	sc = sc.With("r", rel.MustNewSet(rows...))
	sc = sc.With("r2", rel.MustNewSet(rows2...))
	desc = append(desc, fmt.Sprintf("r,r2: relations of %d rows", nr))
	// a set of mixed values: the predicate `.x > 3` fails on the members that are not tuples
	ns := t.Range(12, 300)
	var mixed, nums []rel.Value
	for i := 0; i < ns; i++ {
		nums = append(nums, num(i))
		if i%11 == 5 {
			mixed = append(mixed, num(1000+i))
		} else {
			mixed = append(mixed, rel.NewTuple(rel.NewAttr("x", num(i))))
		}
	}
	sc = sc.With("mixed", rel.MustNewSet(mixed...))
	sc = sc.With("nums", rel.MustNewSet(nums...))
	desc = append(desc, fmt.Sprintf("mixed,nums: sets of %d members", ns))
	var items []rel.Value
	for i := 0; i < 6; i++ {
		items = append(items, str(fmt.Sprintf("s%d", i)))
	}
	sc = sc.With("arr", rel.NewArray(items...))
	// a relation whose attributes are a subset of r's: r <&> ysub takes the semi-join path
	var ys []rel.Value
	for i := 0; i < 5; i++ {
		ys = append(ys, rel.NewTuple(rel.NewAttr("y", num(i))))
	}
	sc = sc.With("ysub", rel.MustNewSet(ys...))
	// a dictionary: membership tests and removals of different entries from several goroutines
	var des []rel.DictEntryTuple
	for i := 0; i < 30; i++ {
		des = append(des, rel.NewDictEntryTuple(num(i), num(1000+i)))
	}
	sc = sc.With("dd", rel.MustNewDict(false, des...))
	return sc, desc
}

var programs = []string{
	"t.a1 + t.a2",
	"t = t2",
	"//str.repr(t)",
	"t +> (zz: 1)",
	"(t :> . + 1).a0",
	"r <&> r2",
	"r -&- r2",
	"(r <&> r2) count",
	"r nest |x|g",
	"r nest ~|y|g",
	"r => .x",
	"r where .x > 3",
	"r where .y = 2",
	"r2 orderby .z",
	"nums where . > 5",
	"nums => . * 2",
	"(nums where . % 2 = 0) count",
	"mixed where .x > 3",
	"mixed => cond . {(x: x): x, _: 0}",
	"(mixed where cond . {(x: x): x > 3, _: false}) count",
	"//seq.join(',', arr)",
	"arr >> (. ++ '!')",
	"//seq.concat([arr, arr]) count",
	"$`${arr::,}`",
	"//encoding.json.encode(r2 => .z)",
	"//math.pi > 3",
	"{1, 2, 3} | nums",
	"(\\x x + 1)(t.a3)",
	"let f = //fn.fix(\\f \\n cond {n < 2: 1, _: n * f(n - 1)}); f(5)",
	"//rel.union({nums, {1000}})",
	"//eval.value('1 + 1')",
	"r rank (k: .x)",
	"nums sum .", "r sum .x", "(r => .x) mean .", "nums sum . * 2",
	"exp3('A')", "exp3('B')", "exp3('C')", // one shared partial application of a curried standard-library function
	"(@: 3, @value: 1003) <: dd", "(@: 22, @value: 1022) <: dd", "(@: 7, @value: 1) <: dd", "dd without (@: 5, @value: 1005)", "dd without (@: 11, @value: 1011)",
	"dd(17)", "(dd where .@ > 20) count", "dd +> {99: 1}",
	"r <&> ysub",
	"(r <&> ysub) count",
	"r -&- ysub",
	"//{./d.json}",
	"//{./d.yaml}.tag",
	// deprecated forms: each distinct source text is recorded once in a process-wide cache
	"(a: 1) + (b: 2)",
	"(a: 1, c: 3) + (b: t.a1)",
	"{1} + {2}",
	"nums + {1000}",
	"'a' + 'b'",
	"{(a: 1)}.a",
	"(r where .x = 1).y",
}

var reHdr = regexp.MustCompile(`^(Write|Read|Previous write|Previous read|Atomic write|Previous atomic write|Atomic read|Previous atomic read) at 0x[0-9a-f]+ by `)

type report struct {
	accessTop [2]string // first non-runtime function of each conflicting access
	text      string
}

func isStd(fn string) bool {
	first := fn
	if i := strings.Index(first, "/"); i >= 0 {
		first = first[:i]
	}
	return !strings.Contains(first, ".") || strings.HasPrefix(fn, "runtime.") || strings.HasPrefix(fn, "sync.")
}

func stripArgs(l string) string {
	if i := strings.LastIndex(l, "("); i > 0 {
		return l[:i]
	}
	return l
}

func parseReports(text string) []report {
	var out []report
	for _, blk := range strings.Split(text, "==================") {
		if !strings.Contains(blk, "WARNING: DATA RACE") {
			continue
		}
		r := report{text: strings.TrimSpace(blk)}
		lines := strings.Split(blk, "\n")
		acc := -1
		for _, l := range lines {
			if reHdr.MatchString(l) {
				acc++
				continue
			}
			if strings.HasPrefix(l, "Goroutine ") {
				acc = 2
			}
			if acc < 0 || acc > 1 || r.accessTop[acc] != "" {
				continue
			}
			if strings.HasPrefix(l, "  ") && !strings.HasPrefix(l, "      ") {
				fn := stripArgs(strings.TrimSpace(l))
				if !isStd(fn) {
					r.accessTop[acc] = fn
				}
			}
		}
		out = append(out, r)
	}
	return out
}

func owned(fn string) bool { return strings.HasPrefix(fn, "github.com/arr-ai/arrai/") }

var raceLogOffset int
var stdinFed, lazyPhaseDone bool
var stdinProblem string

func raceLogPath() string {
	for _, kv := range strings.Fields(os.Getenv("GORACE")) {
		if strings.HasPrefix(kv, "log_path=") {
			return strings.TrimPrefix(kv, "log_path=") + "." + fmt.Sprint(os.Getpid())
		}
	}
	return ""
}

// Run executes one workload.
func Run(c *run.Ctx) {
	t := c.Tape
	scope, desc := sharedValues(t)
	g := t.Range(2, 8)
	firstUse := t.Bool(1, 2)
	switch c.Knob("mode", "") {
	case "firstuse":
		firstUse = true
	case "shared":
		firstUse = false
	}
	np := t.Range(2, 6)
	var progs []string
	for i := 0; i < np; i++ {
		progs = append(progs, programs[t.Draw(len(programs))])
	}
	fc := os.Getenv("FROZEN_CONCURRENCY")
	c.Logf("values %v; goroutines=%d first-use=%v FROZEN_CONCURRENCY=%q programs=%v", desc, g, firstUse, fc, progs)
	ctx := arraictx.InitRunCtx(context.Background())
	ctx = importcache.WithNewImportCache(ctx)
	disk := simfs.New("disk", "/w")
	disk.Put("/w/d.json", `{"tag": "json", "n": [1, 2]}`)
	disk.Put("/w/d.yaml", "tag: yaml\n")
	ctx = ctxfs.SourceFsOnto(ctx, disk)
	ctx = ctxfs.RuntimeFsOnto(ctx, disk)
	const progPath = "/w/prog.arrai"
	type res struct {
		out []string
	}
	results := make([]res, g)
	if firstUse {
		// exp3 is built with the parser; in a first-use run nothing may touch package syntax before the goroutines
		var keep []string
		for _, p := range progs {
			if !strings.HasPrefix(p, "exp3(") {
				keep = append(keep, p)
			}
		}
		if len(keep) == 0 {
			keep = []string{"t.a1 + t.a2"}
		}
		progs = keep
	} else if v, err := syntax.EvalWithScope(ctx, progPath, "//str.expand('')(arr)(':,')", scope); err == nil {
		scope = scope.With("exp3", v)
	}
	var compiled []rel.Expr
	if !firstUse {
		for _, p := range progs {
			e, err := syntax.Compile(ctx, progPath, p)
			if err != nil {
				c.Logf("program %q does not compile", p) // the error is never formatted: wbnf renders some parse errors in exponential time
				compiled = append(compiled, nil)
				continue
			}
			compiled = append(compiled, e)
		}
	}
	evalOne := func(i int, p string) string {
		var out string
		msg, frame, panicked := run.Guard(func() {
			var e rel.Expr
			var err error
			if firstUse {
				e, err = syntax.Compile(ctx, progPath, p)
			} else {
				e = compiled[i]
				if e == nil {
					err = fmt.Errorf("no compile")
				}
			}
			if err != nil {
				out = "compile-error"
				return
			}
			v, err := e.Eval(ctx, scope)
			if err != nil {
				out = "error"
				return
			}
			out = v.String()
		})
		if panicked {
			return "panic: " + msg + " at " + frame
		}
		return out
	}
	evalSrc := func(src string) string {
		var out string
		msg, frame, panicked := run.Guard(func() {
			e, err := syntax.Compile(ctx, progPath, src)
			if err != nil {
				out = "compile-error"
				return
			}
			v, err := e.Eval(ctx, scope)
			if err != nil {
				out = "error"
				return
			}
			out = v.String()
		})
		if panicked {
			return "panic: " + msg + " at " + frame
		}
		return out
	}
	together := func(n int, f func(k int)) {
		var start, done sync.WaitGroup
		start.Add(1)
		for k := 0; k < n; k++ {
			done.Add(1)
			go func(k int) {
				defer done.Done()
				start.Wait()
				f(k)
			}(k)
		}
		start.Done()
		done.Wait()
	}
	// phase A (fresh process only): the three process-wide lazies of package syntax -- standard scope, safe
	// standard scope, implicit decoder -- are used for the very first time at the same moment
	if firstUse && !lazyPhaseDone {
		lazyPhaseDone = true
		// through the public entry points an embedding host has (pkg/shell calls StdScope directly) and
		// through evaluation
		lazies := []func(){
			func() { syntax.StdScope() },
			func() { syntax.SafeStdScope() },
			func() { evalSrc("//{./d.json}") },
			func() { evalSrc("//eval.value('1 + 1')") },
			func() { evalSrc("//{./d.yaml}.tag") },
			func() { evalSrc("//math.pi") },
		}
		together(len(lazies), func(k int) { lazies[k]() })
		c.Probe("lazies-first-used-together")
	}
	// phase B: the drawn programs, every goroutine starting at a different one
	together(g, func(k int) {
		for i := range progs {
			j := (i + k) % len(progs)
			results[k].out = append(results[k].out, fmt.Sprintf("%d=%s", j, evalOne(j, progs[j])))
		}
	})
	// phase C (fresh process only): //os.stdin read by all goroutines at once while the simulator delivers the
	// stream in two pieces; everybody must see all of it
	if aaseed.FakeStdinW != nil && !stdinFed {
		stdinFed = true
		go func() {
			aaseed.FakeStdinW.Write([]byte("abc"))
			time.Sleep(40 * time.Millisecond)
			aaseed.FakeStdinW.Write([]byte("def"))
			aaseed.FakeStdinW.Close()
		}()
		seen := make([]string, g)
		evalSrc("1") // the compiler itself is warm by now; only the stream is first-used
		together(g, func(k int) { seen[k] = evalSrc("//os.stdin") })
		c.Probe("stdin-read-under-contention")
		for k, sv := range seen {
			if sv != seen[0] || !strings.Contains(sv, "abcdef") && !strings.Contains(sv, "97, 98, 99, 100, 101, 102") {
				stdinProblem = fmt.Sprintf("goroutine %d read %q, goroutine 0 read %q; the stream was \"abc\" then \"def\"", k, sv, seen[0])
			}
		}
	}
	c.Res.Steps = g * len(progs)

	// serial reference: the same programs afterwards on one goroutine
	serial := map[int]string{}
	for i, p := range progs {
		serial[i] = evalOne(i, p)
	}
	c.Res.Nontrivial = true
	sort.Strings(progs)
	c.Res.State = run.Fingerprint(strings.Join(progs, ";"), fmt.Sprint(g, firstUse, fc))
	if t.Len()%7 == 0 || c.Verbose {
		c.Res.Sample = map[string]any{"values": desc, "goroutines": g, "first_use": firstUse, "FROZEN_CONCURRENCY": fc, "programs": progs}
	}

	// race reports
	if lp := raceLogPath(); lp != "" {
		if b, err := os.ReadFile(lp); err == nil {
			// the detector keeps the file open: never delete it, read what this run appended
			if raceLogOffset > len(b) {
				raceLogOffset = 0
			}
			reps := parseReports(string(b[raceLogOffset:]))
			raceLogOffset = len(b)
			for _, r := range reps {
				a, b := r.accessTop[0], r.accessTop[1]
				if owned(a) || owned(b) {
					fa, fb := strings.TrimPrefix(a, "github.com/arr-ai/arrai/"), strings.TrimPrefix(b, "github.com/arr-ai/arrai/")
					if fb < fa {
						fa, fb = fb, fa
					}
					txt := r.text
					if len(txt) > 1800 {
						txt = txt[:1800] + "..."
					}
					c.Violate("race-free", "C11/race:"+fa+"|"+fb, "data race on memory accessed by arr.ai code (programs %v, %d goroutines, FROZEN_CONCURRENCY=%q):\n%s", progs, g, fc, txt)
				} else {
					c.Probe("race-report-in-dependency-only")
				}
			}
			if len(reps) == 0 {
				c.Probe("no-race-report")
			}
		}
	} else {
		c.Probe("race-detector-off")
	}
	if c.Failed() {
		return
	}
	if stdinProblem != "" {
		msg := stdinProblem
		stdinProblem = ""
		c.Violate("serial-equivalent", "C11/stdin-split-between-readers", "concurrent evaluations of //os.stdin did not all see the whole stream: %s", msg)
		return
	}
	// results equal the serial ones -- only judged with the trie library at production settings
	if fc == "" || fc == "off" {
		for k := range results {
			for _, o := range results[k].out {
				var j int
				fmt.Sscanf(o, "%d=", &j)
				want := fmt.Sprintf("%d=%s", j, serial[j])
				if o != want {
					c.Violate("serial-equivalent", "C11/race-wrong-result", "goroutine %d got %.300s, alone the program gives %.300s", k, o, want)
					return
				}
			}
		}
		c.Probe("results-compared-with-serial")
	}
}
