// Package atest is the C20 engine: `arrai test` over simulated directory
// layouts, compared with a leaf census the generator wrote down, then re-run
// with an I/O error at every disk operation of the fault-free run.
//
// Real: test.RunTests (walk, runFile, RunExpr, ForeachLeaf, calcStats,
// Report), compiler, evaluator. Stub: the disk (simfs); the report writer is
// a buffer.
package atest

import (
	"bytes"
	"context"
	"fmt"
	"regexp"
	"sort"
	"strconv"
	"strings"

	"github.com/arr-ai/arrai/pkg/arraictx"
	"github.com/arr-ai/arrai/pkg/ctxfs"
	"github.com/arr-ai/arrai/pkg/test"

	"aaverif/run"
	"aaverif/simfs"
	"aaverif/tape"
)

func init() { run.Register("atest", Run) }

type leaf struct {
	path    string
	outcome string // PASS, FAIL, ??
}

type gen struct {
	t      *tape.Tape
	routes bool
	sparse bool
	offset bool // an offset array was generated: index part of paths not compared
	dotted bool
	used   map[string]bool
}

var trueSrc = []string{"true", "{()}", "1 = 1", "!false", "{1} = {1}", "true"}
var falseSrc = []string{"false", "{}", "1 = 2", `""`, "!true", "false"}
var otherSrc = []string{"1", `"str"`, "{1, 2}", "{|a| (1)}", "(a: 1).a", "0", `<<"b">>`, "{(a: 1)}", `'true'`, `//str.lower("TRUE")`, `"{()}"`, `'false'`}

// node returns source and appends the leaves below it (paths relative to prefix).
func (g *gen) node(prefix string, depth int, passOnly bool, out *[]leaf) string {
	t := g.t
	kind := t.Draw(10)
	if depth >= 4 && kind >= 4 {
		kind = t.Draw(4)
	}
	switch {
	case kind < 4: // leaf
		switch c := t.Draw(8); {
		case passOnly || c < 5:
			*out = append(*out, leaf{prefix, "PASS"})
			return trueSrc[t.Draw(len(trueSrc))]
		case c < 7:
			*out = append(*out, leaf{prefix, "FAIL"})
			return falseSrc[t.Draw(len(falseSrc))]
		default:
			*out = append(*out, leaf{prefix, "??"})
			return otherSrc[t.Draw(len(otherSrc))]
		}
	case kind < 6: // tuple
		n := t.Range(0, 3)
		var parts []string
		seen := map[string]bool{}
		for i := 0; i < n; i++ {
			name := []string{"a", "b", "c", "test_x", "d"}[t.Draw(5)]
			if seen[name] {
				continue
			}
			seen[name] = true
			parts = append(parts, name+": "+g.node(prefix+"."+name, depth+1, passOnly, out))
		}
		if g.routes && len(parts) == 2 && t.Bool(1, 3) {
			return "((" + parts[0] + ") +> (" + parts[1] + "))"
		}
		return "(" + strings.Join(parts, ", ") + ")"
	case kind < 8: // array
		n := t.Range(1, 3)
		var parts []string
		hole := -1
		if g.sparse && n == 3 && t.Bool(1, 3) {
			hole = 1
		}
		off := 0
		if g.routes && t.Bool(1, 6) {
			off = t.Range(1, 2)
			g.offset = true
		}
		idx := 0
		for i := 0; i < n; i++ {
			if i == hole {
				parts = append(parts, "")
				idx++
				continue
			}
			parts = append(parts, g.node(fmt.Sprintf("%s(%d)", prefix, idx), depth+1, passOnly, out))
			idx++
		}
		if hole >= 0 {
			g.offset = true // index naming across holes is not specified
		}
		src := "[" + strings.Join(parts, ", ") + "]"
		if off > 0 {
			return fmt.Sprintf("(%d\\%s)", off, src)
		}
		if g.routes && n == 2 && hole < 0 && t.Bool(1, 4) {
			return "([" + parts[0] + "] ++ [" + parts[1] + "])"
		}
		return src
	default: // dict
		n := t.Range(1, 3)
		var parts []string
		seen := map[string]bool{}
		for i := 0; i < n; i++ {
			var key, label string
			if t.Bool(1, 4) {
				k := t.Draw(3)
				key, label = fmt.Sprint(k), fmt.Sprint(k)
			} else {
				k := []string{"k", "j", "m", "naïve café", "ключ", "k"}[t.Draw(6)] // leaf paths are padded to a common width: bytes and runes differ
				key, label = fmt.Sprintf("%q", k), "'"+k+"'"
			}
			if seen[key] {
				continue
			}
			seen[key] = true
			parts = append(parts, key+": "+g.node(fmt.Sprintf("%s(%s)", prefix, label), depth+1, passOnly, out))
		}
		src := "{" + strings.Join(parts, ", ") + "}"
		if g.routes && len(parts) == 2 && t.Bool(1, 3) {
			src = "({" + parts[0] + "} +> {" + parts[1] + "})"
		}
		if g.routes && !passOnly && t.Bool(1, 5) {
			// a second, different value under a key: both are leaves at that path. Only true/false pairs are
			// generated, so that the two values cannot coincide.
			key, label := `"dup"`, "'dup'"
			*out = append(*out, leaf{fmt.Sprintf("%s(%s)", prefix, label), "PASS"}, leaf{fmt.Sprintf("%s(%s)", prefix, label), "FAIL"})
			src = fmt.Sprintf("(%s | {%s: true} | {%s: false})", src, key, key)
		}
		return src
	}
}

type tfile struct {
	path      string
	src       string
	leaves    []leaf
	broken    string // "", "syntax", "eval"
	reachable bool
}

var reLine = regexp.MustCompile(`^\x1b\[38;5;255;\d+;1m(PASS|FAIL| \?\? |SKIP)\x1b\[0m  (.*)$`)
var reSummary = regexp.MustCompile(`^(?:(\d+) failed, )?(?:(\d+) invalid, )?(?:(\d+) ignored, )?(\d+) passed of (\d+) total tests\.`)

type parsed struct {
	lines                                   []leaf
	failed, invalid, ignored, passed, total int
	hasSummary                              bool
	files                                   int
}

func parseReport(s string) parsed {
	var p parsed
	inSummary := false
	for _, l := range strings.Split(s, "\n") {
		if strings.HasPrefix(l, "=======  Summary") {
			inSummary = true
			continue
		}
		if strings.HasPrefix(l, "=======  ") {
			p.files++
			continue
		}
		if inSummary {
			if m := reSummary.FindStringSubmatch(l); m != nil {
				p.failed, _ = strconv.Atoi("0" + m[1])
				p.invalid, _ = strconv.Atoi("0" + m[2])
				p.ignored, _ = strconv.Atoi("0" + m[3])
				p.passed, _ = strconv.Atoi(m[4])
				p.total, _ = strconv.Atoi(m[5])
				p.hasSummary = true
			}
			continue
		}
		if m := reLine.FindStringSubmatch(l); m != nil {
			p.lines = append(p.lines, leaf{strings.TrimRight(m[2], " "), strings.TrimSpace(m[1])})
		}
	}
	return p
}

var reIdx = regexp.MustCompile(`\(\d+\)`)

func normLeaves(ls []leaf, dropIdx bool) []string {
	var out []string
	for _, l := range ls {
		p := strings.TrimPrefix(l.path, ".")
		if dropIdx {
			p = reIdx.ReplaceAllString(p, "(#)")
		}
		out = append(out, l.outcome+" "+p)
	}
	sort.Strings(out)
	return out
}

type outcome struct {
	err      error
	panicMsg string
	frame    string
	report   string
	ops      []simfs.Op
}

func execute(fs *simfs.FS, target string) outcome {
	ctx := arraictx.InitRunCtx(context.Background())
	ctx = ctxfs.SourceFsOnto(ctx, fs)
	ctx = ctxfs.RuntimeFsOnto(ctx, fs)
	var buf bytes.Buffer
	var o outcome
	msg, frame, p := run.Guard(func() { o.err = test.RunTests(ctx, &buf, target) })
	if p {
		o.panicMsg, o.frame = msg, frame
	}
	o.report = buf.String()
	o.ops = fs.Ops()
	return o
}

// Run executes one scenario.
func Run(c *run.Ctx) {
	t := c.Tape
	g := &gen{t: t, routes: c.Knob("routes", "on") == "on", sparse: c.Knob("sparse", "off") == "on"}
	allPass := t.Bool(1, 2) // half of the scenarios are meant to pass, so that both directions of the iff are exercised

	fs := simfs.New("disk", "/w")
	fs.PutDir("/w/t")
	fs.Put("/w/t/helper.arrai", "(t: true, f: false, n: 3)")
	dirs := []string{"", "", "sub", "sub/deep", "x_test.arrai", "other"}
	nfiles := t.Range(1, 4)
	var files []*tfile
	usedPath := map[string]bool{}
	for i := 0; i < nfiles; i++ {
		d := dirs[t.Draw(len(dirs))]
		name := []string{"a_test.arrai", "b_test.arrai", "_test.arrai", "zz_test.arrai"}[t.Draw(4)]
		p := "/w/t/" + d + "/" + name
		p = strings.ReplaceAll(p, "//", "/")
		if usedPath[p] {
			continue
		}
		usedPath[p] = true
		f := &tfile{path: p, reachable: true}
		switch c := t.Draw(12); {
		case c == 0 && !allPass:
			f.broken, f.src = "syntax", "(a: true))" // an unbalanced "(a: true" sends wbnf's error rendering into exponential time (C10 class)
		case c == 1 && !allPass:
			f.broken, f.src = "eval", "(a: true, b: [1](5))"
		case c == 2:
			// imports a sibling
			fs.Put(strings.TrimSuffix(p, name)+"helper.arrai", "(t: true, f: false, n: 3)")
			if allPass || t.Bool(1, 2) {
				f.src = "(imp: //{./helper}.t)"
				f.leaves = []leaf{{".imp", "PASS"}}
			} else {
				f.src = "(imp: //{./helper}.f, k: //{./helper}.n)"
				f.leaves = []leaf{{".imp", "FAIL"}, {".k", "??"}}
			}
		default:
			f.src = g.node("", 0, allPass, &f.leaves)
		}
		fs.Put(p, f.src)
		files = append(files, f)
	}
	// decoys that must not count
	if t.Bool(1, 2) {
		fs.Put("/w/t/.hidden/h_test.arrai", "(h: false)")
		c.Probe("hidden-dir-with-failing-test")
	}
	if t.Bool(1, 3) {
		fs.Put("/w/t/sub/.git/x_test.arrai", "(h: true))")
		c.Probe("hidden-dir-with-broken-test")
	}
	// hidden regular files are not hidden directories: they must not end the walk of their directory
	for _, f := range files {
		if t.Bool(1, 3) {
			fs.Put(strings.TrimSuffix(f.path, "/"+pathBase(f.path))+"/"+[]string{".gitignore", ".DS_Store", ".hidden.arrai"}[t.Draw(3)], "false")
			c.Probe("hidden-file-next-to-test-file")
		}
	}
	if t.Bool(1, 2) {
		fs.Put("/w/t/notes.txt", "false")
		fs.Put("/w/t/broken.arrai", "1 +")
		fs.Put("/w/t/sub/y_test.arrai.bak", "(x: false)")
		fs.Put("/w/t/test.arrai", "(x: false)")
	}
	target := "/w/t"
	switch t.Draw(6) {
	case 0:
		target = "t"
	case 1:
		if len(files) > 0 {
			target = files[0].path
			for _, f := range files[1:] {
				f.reachable = false
			}
			c.Probe("target-is-file")
		}
	case 2:
		target = "/w/t/sub"
		for _, f := range files {
			f.reachable = strings.HasPrefix(f.path, "/w/t/sub/")
		}
	}

	var reach []*tfile
	for _, f := range files {
		if f.reachable {
			reach = append(reach, f)
		}
	}
	expectOK := len(reach) > 0
	broken := false
	var census []leaf
	for _, f := range reach {
		if f.broken != "" {
			expectOK, broken = false, true
		}
		for _, l := range f.leaves {
			census = append(census, l)
			if l.outcome != "PASS" {
				expectOK = false
			}
		}
	}
	for _, f := range files {
		c.Logf("file %s reachable=%v broken=%q: %s", f.path, f.reachable, f.broken, f.src)
	}
	c.Logf("target %s expectOK=%v leaves=%d", target, expectOK, len(census))

	o := execute(fs.Clone("disk"), target)
	c.Res.Steps += len(o.ops)
	c.Logf("result err=%v panic=%q report-lines=%d ops=%d", o.err != nil, o.panicMsg, len(parseReport(o.report).lines), len(o.ops)) // never the byte length: the report embeds wall-clock milliseconds
	c.Res.Nontrivial = len(census) >= 2
	shape := fmt.Sprintf("ok=%v files=%d leaves=%d broken=%v", expectOK, len(reach), len(census), broken)
	c.Res.State = run.Fingerprint(shape, strings.Join(normLeaves(census, true), "|"))
	if t.Len()%25 == 0 || c.Verbose {
		var fl []string
		for _, f := range files {
			fl = append(fl, f.path+": "+f.src)
		}
		c.Res.Sample = map[string]any{"target": target, "files": fl, "expect_pass": expectOK, "leaves": len(census)}
	}
	if expectOK {
		c.Probe("expected-pass")
	} else {
		c.Probe("expected-fail")
	}

	if o.panicMsg != "" {
		if expectOK {
			c.Violate("pass-iff-all-true", "C20/panic-on-passing-tree/"+o.frame, "every leaf is true but RunTests panicked: %s (files %s)", o.panicMsg, describe(files))
		} else {
			c.Probe("panic-on-failing-tree")
		}
		return
	}
	if expectOK && o.err != nil {
		c.Violate("pass-iff-all-true", "C20/false-fail", "every leaf of every reachable test file is true but the run failed: %v (target %s; files %s)", firstLine(o.err), target, describe(files))
		return
	}
	if !expectOK && o.err == nil {
		c.Violate("pass-iff-all-true", "C20/false-pass/"+why(reach), "the run passed although it must fail (target %s; files %s)", target, describe(files))
		return
	}
	if len(reach) > 0 && !broken {
		p := parseReport(o.report)
		if !p.hasSummary {
			c.Violate("report", "C20/no-summary", "report has no summary line: %q", o.report)
			return
		}
		want, got := normLeaves(census, g.offset), normLeaves(p.lines, g.offset)
		if strings.Join(want, "\n") != strings.Join(got, "\n") {
			c.Violate("each-leaf-once", "C20/report-lines", "reported leaves differ from the census: want %v got %v (files %s)", want, got, describe(files))
			return
		}
		if p.passed+p.failed+p.invalid+p.ignored != p.total || p.total != len(census) {
			c.Violate("counts-add-up", "C20/summary-counts", "summary %d failed %d invalid %d ignored %d passed of %d; census has %d leaves (files %s)", p.failed, p.invalid, p.ignored, p.passed, p.total, len(census), describe(files))
			return
		}
		if p.files != len(reach) {
			c.Violate("each-leaf-once", "C20/report-files", "report lists %d files, %d reachable test files (files %s)", p.files, len(reach), describe(files))
			return
		}
	}

	if c.Knob("faults", "off") != "enum" {
		return
	}
	pairs := 0
	for i, op := range o.ops {
		i, op := i, op
		fs2 := fs.Clone("disk")
		fired := false
		fs2.Before = func(seq int, kind, p string) *simfs.Fault {
			if seq == i {
				fired = true
				return &simfs.Fault{Partial: op.N / 2}
			}
			return nil
		}
		o2 := execute(fs2, target)
		c.Res.Steps += len(o2.ops)
		if !fired {
			continue
		}
		c.Fault(op.Kind)
		c.Logf("fault at op %d (%s %s): err=%v panic=%q", i, op.Kind, op.Path, o2.err != nil, o2.panicMsg)
		if o2.panicMsg != "" {
			c.Violate("no-crash", "C20/fault-panic/"+op.Kind+"/"+o2.frame, "I/O error at op %d (%s %s): RunTests panicked: %s", i, op.Kind, op.Path, o2.panicMsg)
			return
		}
		if o2.err == nil {
			c.Probe("fault-tolerated")
			if !expectOK {
				c.Violate("fault-never-turns-fail-into-pass", "C20/fault-false-pass/"+op.Kind, "I/O error injected at op %d (%s %s): the run passed although it must fail (files %s)", i, op.Kind, op.Path, describe(files))
				return
			}
		} else {
			c.Probe("fault-reported")
		}
		// fault sequences: a second error, wherever the first one did not end the scan at once
		for j := i + 1; j < len(o2.ops) && pairs < 40; j++ {
			j, op2 := j, o2.ops[j]
			pairs++
			fs3 := fs.Clone("disk")
			fs3.Before = func(seq int, kind, p string) *simfs.Fault {
				if seq == i || seq == j {
					return &simfs.Fault{Partial: op2.N / 2}
				}
				return nil
			}
			o3 := execute(fs3, target)
			c.Res.Steps += len(o3.ops)
			c.Fault("second:" + op2.Kind)
			if o3.panicMsg != "" {
				c.Violate("no-crash", "C20/fault-panic/"+op.Kind+"+"+op2.Kind+"/"+o3.frame, "I/O errors at ops %d and %d: RunTests panicked: %s", i, j, o3.panicMsg)
				return
			}
			if o3.err == nil && !expectOK {
				c.Violate("fault-never-turns-fail-into-pass", "C20/fault-false-pass/"+op.Kind+"+"+op2.Kind, "I/O errors injected at ops %d (%s %s) and %d (%s %s): the run passed although it must fail (files %s)", i, op.Kind, op.Path, j, op2.Kind, op2.Path, describe(files))
				return
			}
		}
	}
}

func pathBase(p string) string { return p[strings.LastIndex(p, "/")+1:] }

func why(reach []*tfile) string {
	for _, f := range reach {
		if f.broken != "" {
			return "broken-" + f.broken
		}
	}
	kinds := map[string]bool{}
	for _, f := range reach {
		for _, l := range f.leaves {
			if l.outcome != "PASS" {
				kinds[l.outcome] = true
			}
		}
	}
	var ks []string
	for k := range kinds {
		ks = append(ks, map[string]string{"FAIL": "false-leaf", "??": "other-leaf"}[k])
	}
	sort.Strings(ks)
	if len(ks) == 0 {
		return "no-files"
	}
	return strings.Join(ks, "+")
}

func describe(files []*tfile) string {
	var s []string
	for _, f := range files {
		r := ""
		if !f.reachable {
			r = " (not under target)"
		}
		s = append(s, fmt.Sprintf("%s%s = `%s`", f.path, r, f.src))
	}
	return strings.Join(s, " ; ")
}

func firstLine(err error) string {
	s := err.Error()
	if i := strings.Index(s, "\n"); i >= 0 {
		s = s[:i]
	}
	return s
}
