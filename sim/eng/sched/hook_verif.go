//go:build verif

package sched

import (
	"sync"

	"github.com/arr-ai/arrai/pkg/importcache"
)

// HookAvailable reports whether the repo was built with its guarded hook.
const HookAvailable = true

func setCondWakeHook(f func(mu *sync.Mutex)) { importcache.SimAfterCondWake = f }
