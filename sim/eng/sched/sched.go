// Package sched is the C11 engine (a): N tasks evaluating programs over one
// shared import cache and root cache, their interleaving decided by the seeded
// scheduler. Tasks are real goroutines inside a synctest bubble; every disk
// operation (and, with the repo's guarded hook, every wake-up from the import
// cache's condition variable) parks the calling task, and after quiescence the
// scheduler releases exactly one parked task, chosen from the tape, possibly
// with an I/O fault.
//
// Real: syntax.Compile/EvaluateExpr, pkg/importcache, pkg/ctxrootcache,
// syntax/import.go. Stub: the disk (simfs).
package sched

import (
	"bytes"
	"context"
	"fmt"
	"runtime"
	"sort"
	"strconv"
	"strings"
	"sync"
	"testing"
	"testing/synctest"

	"github.com/arr-ai/arrai/pkg/arraictx"
	"github.com/arr-ai/arrai/pkg/ctxfs"
	"github.com/arr-ai/arrai/pkg/importcache"
	"github.com/arr-ai/arrai/rel"

	"aaverif/eng/imports"
	"aaverif/layout"
	"aaverif/run"
	"aaverif/simfs"
)

func init() { run.Register("sched", Run) }

func goid() int64 {
	var b [64]byte
	n := runtime.Stack(b[:], false)
	s := b[len("goroutine "):n]
	i := bytes.IndexByte(s, ' ')
	id, _ := strconv.ParseInt(string(s[:i]), 10, 64)
	return id
}

type decision struct{ fault *simfs.Fault }

type task struct {
	id     int
	main   *layout.File
	resume chan decision
	at     string // where it is parked
	atKind string
	atPath string
	ops    []string
	done   bool
	v      rel.Value
	err    error
	pmsg   string
	frame  string
	solo   rel.Value
	soloE  error
	faulty bool // a fault hit a path of this task's closure, or the task itself
}

type sim struct {
	c      *run.Ctx
	mu     sync.Mutex
	byGoid map[int64]*task
	parked map[int]*task
	tasks  []*task
	bad    map[string]bool // persistently failing paths
	hit    map[string]bool // paths that received a fault
}

func (s *sim) taskHere() *task {
	g := goid()
	s.mu.Lock()
	defer s.mu.Unlock()
	return s.byGoid[g]
}

func (t *task) park(s *sim, kind, p string) *simfs.Fault {
	s.mu.Lock()
	t.at, t.atKind, t.atPath = kind+" "+p, kind, p
	t.ops = append(t.ops, t.at)
	s.parked[t.id] = t
	s.mu.Unlock()
	d := <-t.resume
	return d.fault
}

// Run executes one schedule.
func Run(c *run.Ctx) {
	t := c.Tape
	faults := c.Knob("faults", "off") == "on"
	W := imports.Cwd()
	n := t.Range(2, 5)
	l := layout.Gen(t, W, layout.Opts{MaxFiles: 7, Data: t.Bool(1, 3), NestedMod: true, Mains: n})
	base := simfs.New("disk", W)
	l.Install(base)
	s := &sim{c: c, byGoid: map[int64]*task{}, parked: map[int]*task{}, bad: map[string]bool{}, hit: map[string]bool{}}
	for i := 0; i < n; i++ {
		s.tasks = append(s.tasks, &task{id: i, main: l.Mains[i]})
	}
	c.Logf("layout %v", l.Describe())
	// solo results: each main alone on a fresh context and disk
	soloOps := 0
	for _, tk := range s.tasks {
		fs := base.Clone("solo")
		r := imports.EvalFile(imports.Ctx(fs), fs, tk.main.Path)
		tk.solo, tk.soloE = r.V(), r.Err()
		if r.PanicMsg() != "" {
			tk.soloE = fmt.Errorf("panic: %s", r.PanicMsg())
		}
		soloOps += fs.NOps()
		c.Logf("task %d main %s solo err=%v", tk.id, strings.TrimPrefix(tk.main.Path, W), tk.soloE != nil)
	}
	budget := 20*soloOps + 200

	shared := base.Clone("shared")
	ctx := arraictx.InitRunCtx(context.Background())
	ctx = importcache.WithNewImportCache(ctx)
	ctx = ctxfs.SourceFsOnto(ctx, shared)
	ctx = ctxfs.RuntimeFsOnto(ctx, shared)
	shared.Before = func(seq int, kind, p string) *simfs.Fault {
		tk := s.taskHere()
		if tk == nil {
			return nil
		}
		return tk.park(s, kind, p)
	}
	setCondWakeHook(func(mu *sync.Mutex) {
		tk := s.taskHere()
		if tk == nil {
			return
		}
		mu.Unlock()
		tk.park(s, "condwake", "")
		mu.Lock()
	})
	defer setCondWakeHook(nil)

	steps := 0
	deadlock := false
	overBudget := false
	func() {
		defer func() {
			if r := recover(); r != nil {
				msg := fmt.Sprint(r)
				if !strings.Contains(msg, "deadlock") {
					c.Violate("no-crash", "C11/sched-panic", "panic in the bubble: %s", msg)
				}
			}
		}()
		synctest.Test(c.T, func(*testing.T) {
			for _, tk := range s.tasks {
				tk := tk
				tk.resume = make(chan decision) // made inside the bubble: blocking on it is durable
				go func() {
					s.mu.Lock()
					s.byGoid[goid()] = tk
					s.mu.Unlock()
					tk.park(s, "start", "")
					r := imports.EvalFile(ctx, shared, tk.main.Path)
					s.mu.Lock()
					tk.v, tk.err, tk.done = r.V(), r.Err(), true
					tk.pmsg, tk.frame = r.PanicMsg(), r.Frame()
					s.mu.Unlock()
				}()
			}
			for {
				synctest.Wait()
				s.mu.Lock()
				var ids []int
				for id := range s.parked {
					ids = append(ids, id)
				}
				sort.Ints(ids)
				alldone := true
				for _, tk := range s.tasks {
					if !tk.done {
						alldone = false
					}
				}
				s.mu.Unlock()
				if len(ids) == 0 {
					deadlock = !alldone
					return
				}
				if steps >= budget {
					overBudget = true
					return
				}
				steps++
				c.Step()
				pick := s.tasks[ids[t.Draw(len(ids))]]
				var ft *simfs.Fault
				isIO := pick.atKind == "open" || pick.atKind == "read" || pick.atKind == "stat" || pick.atKind == "fstat"
				if faults && isIO {
					switch {
					case s.bad[pick.atPath]:
						ft = &simfs.Fault{}
					case t.Draw(30) == 0:
						ft = &simfs.Fault{}
						if pick.atKind == "read" {
							ft.Partial = t.Draw(8)
						}
						if t.Bool(1, 3) {
							s.bad[pick.atPath] = true
						}
					}
				}
				if ft != nil {
					c.Fault(pick.atKind + "-eio")
					s.hit[pick.atPath] = true
				}
				c.Decide("release task %d at %s fault=%v (parked %v)", pick.id, strings.Replace(pick.at, W, "", 1), ft != nil, ids)
				s.mu.Lock()
				delete(s.parked, pick.id)
				s.mu.Unlock()
				pick.resume <- decision{ft}
			}
		})
	}()
	c.Res.Steps = steps
	for _, tk := range s.tasks {
		var ops []string
		for _, o := range tk.ops {
			ops = append(ops, strings.Replace(o, W, "", 1))
		}
		c.Logf("task %d done=%v err=%v ops=%v", tk.id, tk.done, tk.err != nil, ops)
	}
	var shape []string
	for _, tk := range s.tasks {
		shape = append(shape, fmt.Sprintf("%d:%d", len(layout.Closure(tk.main)), len(tk.ops)))
	}
	c.Res.State = run.Fingerprint(strings.Join(shape, ","), fmt.Sprint(len(s.hit)))
	c.Res.Nontrivial = steps >= 6
	if t.Len()%25 == 0 || c.Verbose {
		var mains []string
		for _, tk := range s.tasks {
			mains = append(mains, strings.TrimPrefix(tk.main.Path, W))
		}
		c.Res.Sample = map[string]any{"files": l.Describe(), "task_mains": mains, "steps": steps, "faulted_paths": len(s.hit)}
	}
	if c.Failed() {
		return
	}
	if overBudget {
		c.Violate("progress", "C11/sched-livelock", "tasks still issue disk operations after %d scheduling steps (solo runs need %d operations in total)", steps, soloOps)
		return
	}
	if deadlock {
		var stuck []string
		for _, tk := range s.tasks {
			if !tk.done {
				stuck = append(stuck, fmt.Sprintf("task %d (main %s, last disk operation: %s)", tk.id, strings.TrimPrefix(tk.main.Path, W), strings.Replace(tk.at, W, "", 1)))
			}
		}
		cause := "no-fault"
		if len(s.hit) > 0 {
			cause = "after-io-error"
		}
		c.Violate("no-deadlock", "C11/import-cache-deadlock/"+cause, "the bubble is quiescent, nothing is parked in the simulator, yet %d task(s) never finished: %s -- they wait in the import cache for a wake-up that is never sent", len(stuck), strings.Join(stuck, "; "))
		return
	}
	for _, tk := range s.tasks {
		// a fault on any file of the closure (or on a go.mod searched on the way) may legitimately fail the task
		allowErr := false
		for _, f := range layout.Closure(tk.main) {
			if s.hit[f.Path] {
				allowErr = true
			}
		}
		for p := range s.hit {
			if strings.HasSuffix(p, "/go.mod") {
				allowErr = true
			}
		}
		switch {
		case tk.pmsg != "":
			c.Violate("no-crash", "C11/sched-task-panic/"+tk.frame, "task %d panicked: %.300s", tk.id, tk.pmsg)
			return
		case tk.soloE != nil:
			if tk.err == nil {
				c.Violate("serial-equivalent", "C11/sched-value-where-solo-fails", "task %d returned %s although its main fails alone (%v)", tk.id, tk.v, tk.soloE)
				return
			}
		case tk.err != nil:
			if !allowErr {
				c.Violate("serial-equivalent", "C11/sched-spurious-error", "task %d (main %s) failed although no file of its import closure received a fault: %.300s", tk.id, strings.TrimPrefix(tk.main.Path, W), tk.err.Error())
				return
			}
			c.Probe("task-failed-after-fault")
		default:
			if !tk.solo.Equal(tk.v) || tk.solo.String() != tk.v.String() {
				c.Violate("serial-equivalent", "C11/sched-wrong-value", "task %d (main %s) returned %s, alone it returns %s", tk.id, strings.TrimPrefix(tk.main.Path, W), tk.v, tk.solo)
				return
			}
		}
	}
	for _, tk := range s.tasks {
		for _, o := range tk.ops {
			if strings.HasPrefix(o, "condwake") {
				c.Probe("waiter-woken-from-cond-wait")
				break
			}
		}
	}
}
