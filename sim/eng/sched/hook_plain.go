//go:build !verif

package sched

import "sync"

// HookAvailable reports whether the repo was built with its guarded hook.
const HookAvailable = false

func setCondWakeHook(f func(mu *sync.Mutex)) {}
