// Package hist is the C03 engine: seeded branching operation histories over a
// pool of live arr.ai values, checked after every step against snapshots.
//
// System under simulation: the Go heap of backing arrays shared between arr.ai
// values. Real: compiler, evaluator, rel, stdlib. Stub: none. No fault kind
// applies; what is searched is the order and branching of derivations.
package hist

import (
	"context"
	"fmt"
	"regexp"
	"strings"

	"github.com/arr-ai/arrai/pkg/arraictx"
	"github.com/arr-ai/arrai/rel"
	"github.com/arr-ai/arrai/syntax"

	"aaverif/enc"
	"aaverif/run"
	"aaverif/tape"
)

func init() { run.Register("hist", Run) }

type entry struct {
	name     string
	v        rel.Value
	canon    string
	repr     string // printed form: a second, independent view (headers of relations are only visible here)
	class    string
	src      string // the op that made it
	operands []int
	children int
	holed    bool // array with holes: //seq.* may loop forever on those (C10 class), so they are not passed there
}

type state struct {
	c    *run.Ctx
	t    *tape.Tape
	ctx  context.Context
	pool []*entry
}

func (s *state) scope() rel.Scope {
	sc := rel.Scope{}
	for _, e := range s.pool {
		sc = sc.With(e.name, e.v)
	}
	return sc
}

func (s *state) eval(src string) (v rel.Value, err error, pmsg string) {
	msg, frame, panicked := run.Guard(func() {
		v, err = syntax.EvalWithScope(s.ctx, syntax.NoPath, src, s.scope())
	})
	if panicked {
		// A panic is C10's defect class; for C03 the step simply yields no value.
		s.c.Probe("step-panicked")
		return nil, fmt.Errorf("panic: %s at %s", msg, frame), msg
	}
	if err == nil && enc.Malformed(v) {
		s.c.Probe("dropped-malformed-array")
		return nil, fmt.Errorf("malformed array (edge hole); dropped"), ""
	}
	return v, err, ""
}

var reRelHeader = regexp.MustCompile(`^\{\|([^|]*)\|`)

// relNames reads the attribute names of a relation from its printed form.
func relNames(e *entry) []string {
	m := reRelHeader.FindStringSubmatch(e.repr)
	if m == nil {
		return nil
	}
	var out []string
	for _, n := range strings.Split(m[1], ",") {
		if n = strings.TrimSpace(n); n != "" {
			out = append(out, n)
		}
	}
	return out
}

// relRow writes a tuple with exactly the relation's attributes (so that with/without keep it a relation).
func (s *state) relRow(e *entry) string {
	names := relNames(e)
	if len(names) == 0 {
		return fmt.Sprintf("(x: %d, y: %d)", s.t.Draw(3), s.t.Draw(4))
	}
	var parts []string
	for _, n := range names {
		parts = append(parts, fmt.Sprintf("%s: %d", n, s.t.Draw(3)))
	}
	return "(" + strings.Join(parts, ", ") + ")"
}

// rebuild derives pool value i again from nothing: its seed literals and the chain of operations that
// made it, and no other operation. The copy has the original's representation but none of its past
// (no comparison, join or derivation was ever applied to it or to its ancestors on the side).
func (s *state) rebuild(i int, memo map[int]rel.Value) (rel.Value, bool) {
	if v, ok := memo[i]; ok {
		return v, v != nil
	}
	e := s.pool[i]
	scope := rel.Scope{}
	for _, j := range e.operands {
		if j >= i {
			memo[i] = nil
			return nil, false
		}
		v, ok := s.rebuild(j, memo)
		if !ok {
			memo[i] = nil
			return nil, false
		}
		scope = scope.With(s.pool[j].name, v)
	}
	var v rel.Value
	var err error
	if _, _, p := run.Guard(func() { v, err = syntax.EvalWithScope(s.ctx, syntax.NoPath, e.src, scope) }); p || err != nil || v == nil {
		memo[i] = nil
		return nil, false
	}
	if enc.Canon(v) != e.canon {
		memo[i] = nil
		return nil, false
	}
	memo[i] = v
	return v, true
}

// freshCheck repeats step o on operands rebuilt from nothing; it returns a description of the difference.
func (s *state) freshCheck(o *op, res *entry) string {
	memo := map[int]rel.Value{}
	scope := rel.Scope{}
	for _, i := range o.operands {
		v, ok := s.rebuild(i, memo)
		if !ok {
			s.c.Probe("fresh-copy-unavailable")
			return ""
		}
		scope = scope.With(s.pool[i].name, v)
	}
	var v2 rel.Value
	var err2 error
	if _, _, p := run.Guard(func() { v2, err2 = syntax.EvalWithScope(s.ctx, syntax.NoPath, o.src, scope) }); p || err2 != nil {
		s.c.Probe("fresh-copy-step-failed")
		return ""
	}
	s.c.Step()
	s.c.Probe("fresh-copy-compared")
	if got := enc.Canon(v2); got != res.canon {
		var ops []string
		for _, i := range o.operands {
			ops = append(ops, s.pool[i].name+" = "+s.pool[i].repr+" (made by `"+s.pool[i].src+"`)")
		}
		return fmt.Sprintf("`%s` gives %s, but on operands derived again from nothing (same derivations, no other operation applied to them or their ancestors) it gives %s; operands: %s", o.src, res.repr, v2.String(), strings.Join(ops, "; "))
	}
	return ""
}

var alphabet = []string{"a", "b", "c", "x", "y"}

func (s *state) lit(kind int) string {
	t := s.t
	n := t.Range(0, 5)
	switch kind {
	case 0: // string
		var sb strings.Builder
		for i := 0; i < n; i++ {
			sb.WriteString(alphabet[t.Draw(len(alphabet))])
		}
		return fmt.Sprintf("%q", sb.String())
	case 1: // bytes
		var parts []string
		for i := 0; i < n; i++ {
			parts = append(parts, fmt.Sprint(97+t.Draw(5)))
		}
		if len(parts) == 0 {
			return `<<"">>`
		}
		return "<<" + strings.Join(parts, ", ") + ">>"
	case 2: // array
		var parts []string
		for i := 0; i < n; i++ {
			if t.Bool(1, 6) && i > 0 && i < n-1 {
				parts = append(parts, "")
			} else {
				parts = append(parts, s.small())
			}
		}
		return "[" + strings.Join(parts, ", ") + "]"
	case 3: // dict
		var parts []string
		for i := 0; i < n; i++ {
			parts = append(parts, fmt.Sprintf("%s: %s", s.key(), s.small()))
		}
		return "{" + strings.Join(parts, ", ") + "}"
	case 4: // relation (2-3 attributes; joins of these add columns to rows and names to headers)
		hdrs := [][]string{{"x", "y"}, {"y", "z"}, {"x", "z"}, {"x", "y", "z"}, {"x", "y", "z"}, {"z", "w"}, {"y", "w"}, {"z", "v"}, {"y", "v"}, {"z", "u"}, {"x", "y", "z", "w", "v"}}
		hdr := hdrs[t.Draw(len(hdrs))]
		var rows []string
		for i := 0; i <= n; i++ {
			var cells []string
			for range hdr {
				cells = append(cells, fmt.Sprint(t.Draw(3)))
			}
			rows = append(rows, "("+strings.Join(cells, ", ")+")")
		}
		return fmt.Sprintf("{|%s| %s}", strings.Join(hdr, ", "), strings.Join(rows, ", "))
	case 5: // tuple
		var parts []string
		for i := 0; i < n; i++ {
			parts = append(parts, fmt.Sprintf("%s: %s", s.attrName(), s.small()))
		}
		return "(" + strings.Join(parts, ", ") + ")"
	case 7: // a configured standard-library function: it is a value too, and may hold state of its own
		return []string{"//encoding.json.encoder(())", "//encoding.json.encoder((indent: ' '))", "//encoding.json.encoder((strict: false))", "//seq.join(',')"}[t.Draw(4)]
	default: // plain set
		var parts []string
		for i := 0; i < n; i++ {
			parts = append(parts, s.small())
		}
		return "{" + strings.Join(parts, ", ") + "}"
	}
}

func (s *state) small() string {
	switch s.t.Draw(6) {
	case 0, 1:
		return fmt.Sprint(s.t.Draw(5))
	case 2:
		return fmt.Sprintf("%q", alphabet[s.t.Draw(len(alphabet))]+alphabet[s.t.Draw(len(alphabet))])
	case 3:
		return fmt.Sprintf("(k: %d)", s.t.Draw(3))
	case 4:
		return fmt.Sprintf("[%d, %d]", s.t.Draw(3), s.t.Draw(3))
	default:
		return fmt.Sprintf("{%d}", s.t.Draw(3))
	}
}

// attrName draws a tuple attribute name; '&x' is the view counterpart of x (one replaces the other).
func (s *state) attrName() string {
	n := alphabet[s.t.Draw(len(alphabet))]
	if s.t.Bool(1, 5) {
		return "'&" + n + "'"
	}
	return n
}

func (s *state) key() string {
	if s.t.Bool(1, 4) {
		return fmt.Sprint(s.t.Draw(4))
	}
	return fmt.Sprintf("%q", alphabet[s.t.Draw(len(alphabet))])
}

// pick returns a pool index, biased towards values that already have children
// (siblings of one parent are what exposes shared backing arrays).
func (s *state) pick(classes ...string) int {
	var cand []int
	for i, e := range s.pool {
		if len(classes) == 0 {
			cand = append(cand, i)
			continue
		}
		for _, c := range classes {
			if e.class == c {
				cand = append(cand, i)
			}
		}
	}
	if len(cand) == 0 {
		return -1
	}
	if s.t.Bool(1, 2) {
		var withKids []int
		for _, i := range cand {
			if s.pool[i].children > 0 {
				withKids = append(withKids, i)
			}
		}
		if len(withKids) > 0 {
			return withKids[s.t.Draw(len(withKids))]
		}
	}
	// bias to recent values
	if s.t.Bool(1, 2) && len(cand) > 3 {
		cand = cand[len(cand)-3:]
	}
	return cand[s.t.Draw(len(cand))]
}

func (s *state) idx(e *entry) string {
	// an index expression relative to the parent: end, before start, first, last, interior, far
	n := e.name
	switch s.t.Draw(6) {
	case 0:
		return fmt.Sprintf("(%s count) + (%s => .@ orderby . ?(0)?:0)", n, n) // offset+count-ish: first index + count
	case 1:
		return fmt.Sprintf("((%s => .@) orderby .)(0) - 1", n)
	case 2:
		return fmt.Sprintf("((%s => .@) orderby .)(0)", n)
	case 3:
		return fmt.Sprintf("((%s => .@) orderby .)((%s count) - 1)", n, n)
	case 4:
		return fmt.Sprintf("((%s => .@) orderby .)(0) + 1", n)
	default:
		return fmt.Sprintf("%d", s.t.Draw(12))
	}
}

type op struct {
	src      string
	operands []int
	kind     string
}

func (s *state) genOp(prev *op) *op {
	t := s.t
	// repeat the previous op's shape on the same parent with a different element
	if prev != nil && len(prev.operands) > 0 && t.Bool(1, 4) {
		p := s.pool[prev.operands[0]]
		if o := s.opOn(prev.operands[0], p, prev.kind); o != nil {
			s.c.Probe("sibling-repeat")
			return o
		}
	}
	i := s.pick()
	if i < 0 {
		return nil
	}
	return s.opOn(i, s.pool[i], "")
}

var seqKinds = []string{"eq", "eq", "lt", "subset", "with-end", "with-any", "without-last", "without-first", "without-any", "concat", "shift", "seqmap", "iseqmap",
	"union", "inter", "diff", "where", "map", "seq.concat", "seq.join", "seq.split", "seq.sub", "seq.repeat", "seq.trim_prefix", "seq.trim_suffix",
	"pat-tail", "pat-init", "call", "with-pair"}
var dictKinds = []string{"eq", "eq", "lt", "subset", "dict-with", "dict-merge", "union", "diff", "seqmap", "dict-without", "pat-dict", "where", "call", "inter"}
var relKinds = []string{"eq", "eq", "lt", "subset", "join", "join", "join", "compose", "joinexist", "nest", "where", "map", "rel-with", "rel-without", "union", "diff", "inter", "rank", "orderby", "project"}
var tupleKinds = []string{"eq", "eq", "lt", "subset", "tuple-merge", "pat-tuple", "tuple-get", "tuple-map"}
var setKinds = []string{"eq", "eq", "lt", "subset", "set-with", "set-without", "union", "diff", "inter", "where", "map", "orderby"}

func (s *state) elemAttr(class string) (attr string, val string) {
	switch class {
	case "str":
		return "@char", fmt.Sprint(97 + s.t.Draw(5))
	case "bytes":
		return "@byte", fmt.Sprint(97 + s.t.Draw(5))
	default:
		return "@item", s.small()
	}
}

func (s *state) opOn(i int, e *entry, forceKind string) *op {
	t := s.t
	var kinds []string
	switch e.class {
	case "str", "bytes", "array":
		kinds = seqKinds
	case "dict":
		kinds = dictKinds
	case "rel":
		kinds = relKinds
	case "tuple":
		kinds = tupleKinds
	case "num":
		return &op{src: fmt.Sprintf("%s + %d", e.name, t.Draw(3)), operands: []int{i}, kind: "num"}
	case "fn":
		j := s.pick("dict", "array", "tuple", "str", "num", "set", "rel")
		if j < 0 {
			return nil
		}
		return &op{src: fmt.Sprintf("%s(%s)", e.name, s.pool[j].name), operands: []int{i, j}, kind: "apply"}
	default:
		kinds = setKinds
	}
	kind := forceKind
	if kind == "" {
		kind = kinds[t.Draw(len(kinds))]
		if strings.HasPrefix(kind, "seq.") && s.anyHoled() {
			kind = "concat"
		}
	} else {
		ok := false
		for _, k := range kinds {
			if k == kind {
				ok = true
			}
		}
		if !ok {
			return nil
		}
	}
	n := e.name
	other := func(classes ...string) (int, string) {
		j := s.pick(classes...)
		if j < 0 {
			return i, n
		}
		return j, s.pool[j].name
	}
	o := &op{operands: []int{i}, kind: kind}
	attr, val := s.elemAttr(e.class)
	switch kind {
	case "eq", "lt", "subset":
		// comparisons compute a boolean FROM the value; they must not touch it either
		j, m := other(e.class)
		o.operands = append(o.operands, j)
		o.src = fmt.Sprintf("%s %s %s", n, map[string]string{"eq": "=", "lt": "<", "subset": "(<=)"}[kind], m)
		if kind == "eq" && t.Bool(1, 3) {
			o.src = fmt.Sprintf("%s != %s", n, m)
		}
	case "with-end":
		// index = one past the last index
		o.src = fmt.Sprintf("%s with (@: ((%s => .@) orderby .)((%s count) - 1) + 1, %s: %s)", n, n, n, attr, val)
	case "with-any":
		o.src = fmt.Sprintf("%s with (@: %s, %s: %s)", n, s.idx(e), attr, val)
	case "with-pair":
		o.src = fmt.Sprintf("%s with (@: %d, @value: %s)", n, t.Draw(4), s.small())
	case "without-last":
		o.src = fmt.Sprintf("let i = ((%s => .@) orderby .)((%s count) - 1); %s without (@: i, %s: %s(i))", n, n, n, attr, n)
	case "without-first":
		o.src = fmt.Sprintf("let i = ((%s => .@) orderby .)(0); %s without (@: i, %s: %s(i))", n, n, attr, n)
	case "without-any":
		o.src = fmt.Sprintf("let i = %s; %s without (@: i, %s: %s(i))", s.idx(e), n, attr, n)
	case "concat":
		if t.Bool(1, 2) {
			j, m := other(e.class)
			o.operands = append(o.operands, j)
			o.src = fmt.Sprintf("%s ++ %s", n, m)
		} else {
			o.src = fmt.Sprintf("%s ++ %s", n, s.lit(classKind(e.class)))
		}
	case "shift":
		o.src = fmt.Sprintf("%d\\%s", t.Range(0, 3)-1, n)
	case "seqmap":
		o.src = fmt.Sprintf("%s >> \\x %s", n, []string{"x", "(k: x)", "[x]", "x"}[t.Draw(4)])
	case "iseqmap":
		o.src = fmt.Sprintf("%s >>> \\i \\x %s", n, []string{"x", "i", "[i, x]"}[t.Draw(3)])
	case "union", "inter", "diff":
		j, m := other(e.class)
		o.operands = append(o.operands, j)
		o.src = fmt.Sprintf("%s %s %s", n, map[string]string{"union": "|", "inter": "&", "diff": "&~"}[kind], m)
	case "where":
		switch e.class {
		case "rel":
			o.src = fmt.Sprintf("%s where ((.).x?:0) < %d", n, t.Draw(4))
		case "str", "bytes", "array", "dict":
			o.src = fmt.Sprintf("%s where .@ != %s", n, s.keyOf(e))
		default:
			o.src = fmt.Sprintf("%s where . != %s", n, s.small())
		}
	case "map":
		switch e.class {
		case "str":
			o.src = fmt.Sprintf("%s => (@: .@ + %d, @char: .@char)", n, t.Draw(3))
		case "bytes":
			o.src = fmt.Sprintf("%s => (@: .@ + %d, @byte: .@byte)", n, t.Draw(3))
		case "array":
			o.src = fmt.Sprintf("%s => (@: .@ + %d, @item: .@item)", n, t.Draw(3))
		case "rel":
			o.src = fmt.Sprintf("%s => (. +> (w: %d))", n, t.Draw(3))
		default:
			o.src = fmt.Sprintf("%s => [., %d]", n, t.Draw(3))
		}
	case "seq.concat":
		j, m := other(e.class)
		o.operands = append(o.operands, j)
		o.src = fmt.Sprintf("//seq.concat([%s, %s])", n, m)
	case "seq.join":
		j, m := other(e.class)
		o.operands = append(o.operands, j)
		o.src = fmt.Sprintf("//seq.join(%s, [%s, %s, %s])", m, n, m, n)
	case "seq.split":
		o.src = fmt.Sprintf("//seq.split(%s, %s)", s.lit(classKind(e.class)), n)
	case "seq.sub":
		o.src = fmt.Sprintf("//seq.sub(%s, %s, %s)", s.lit(classKind(e.class)), s.lit(classKind(e.class)), n)
	case "seq.repeat":
		o.src = fmt.Sprintf("//seq.repeat(%d, %s)", t.Draw(4), n)
	case "seq.trim_prefix":
		if t.Bool(1, 2) {
			j, m := other(e.class)
			o.operands = append(o.operands, j)
			o.src = fmt.Sprintf("//seq.trim_prefix(%s, %s)", m, n)
		} else {
			o.src = fmt.Sprintf("//seq.trim_prefix(%s, %s)", s.lit(classKind(e.class)), n)
		}
	case "seq.trim_suffix":
		if t.Bool(1, 2) {
			j, m := other(e.class)
			o.operands = append(o.operands, j)
			o.src = fmt.Sprintf("//seq.trim_suffix(%s, %s)", m, n)
		} else {
			o.src = fmt.Sprintf("//seq.trim_suffix(%s, %s)", s.lit(classKind(e.class)), n)
		}
	case "pat-tail":
		o.src = fmt.Sprintf("let [_, ...r] = %s; r", n)
	case "pat-init":
		o.src = fmt.Sprintf("let [...r, _] = %s; r", n)
	case "call":
		o.src = fmt.Sprintf("%s(%s)", n, s.keyOf(e))
	case "dict-with":
		o.src = fmt.Sprintf("%s with (@: %s, @value: %s)", n, s.key(), s.small())
	case "dict-merge":
		if t.Bool(1, 2) {
			j, m := other("dict")
			o.operands = append(o.operands, j)
			o.src = fmt.Sprintf("%s +> %s", n, m)
		} else {
			o.src = fmt.Sprintf("%s +> {%s: %s}", n, s.key(), s.small())
		}
	case "dict-without":
		o.src = fmt.Sprintf("let k = %s; %s without (@: k, @value: %s(k))", s.keyOf(e), n, n)
	case "pat-dict":
		o.src = fmt.Sprintf("let {%s: _, ...r} = %s; r", s.keyOf(e), n)
	case "join", "compose", "joinexist":
		opr := map[string]string{"join": "<&>", "compose": "<->", "joinexist": "-&-"}[kind]
		if t.Bool(1, 2) {
			// a fresh right-hand side that matches every key value and brings one new column: two such joins
			// from one parent are siblings whose rows and headers grow from the same storage
			col := []string{"w", "v", "u", "q", "p", "a", "b", "m"}[t.Draw(8)] // a, b, m: the header is then not in alphabetical order
			key := []string{"z", "y", "x", "w", "v"}[t.Draw(5)]
			if names := relNames(e); len(names) > 0 {
				key = names[t.Draw(len(names))] // an attribute the parent really has: the join matches rows
			}
			o.src = fmt.Sprintf("%s %s {|%s, %s| (0, %d), (1, %d), (2, %d), (%d, %d)}", n, opr, key, col, t.Draw(9), t.Draw(9), t.Draw(9), t.Draw(9), t.Draw(9))
		} else {
			j, m := other("rel")
			o.operands = append(o.operands, j)
			o.src = fmt.Sprintf("%s %s %s", n, opr, m)
		}
	case "nest":
		o.src = fmt.Sprintf("%s nest ~|x|g", n)
		if t.Bool(1, 2) {
			o.src = fmt.Sprintf("%s nest ~|y|g", n)
		}
	case "rel-with":
		o.src = fmt.Sprintf("%s with (%s %s single)", n, n, "where .x?:0 = -1 |"+fmt.Sprintf(" {(x: %d, y: %d)}", t.Draw(3), t.Draw(4)))
		o.src = fmt.Sprintf("%s with %s", n, s.relRow(e))
	case "rel-without":
		o.src = fmt.Sprintf("%s without %s", n, s.relRow(e))
	case "rank":
		o.src = fmt.Sprintf("%s rank (r: .)", n)
	case "orderby":
		o.src = fmt.Sprintf([]string{"%s orderby .", "%s orderby .", "%s orderby -.", "%s order \\a \\b a > b"}[t.Draw(4)], n)
	case "project":
		o.src = fmt.Sprintf("%s => (.).x?:((.).y?:0)", n)
	case "tuple-merge":
		if t.Bool(1, 2) {
			j, m := other("tuple")
			o.operands = append(o.operands, j)
			o.src = fmt.Sprintf("%s +> %s", n, m)
		} else {
			o.src = fmt.Sprintf("%s +> (%s: %s)", n, s.attrName(), s.small())
		}
	case "pat-tuple":
		o.src = fmt.Sprintf("let (%s: _, ...r) = %s; r", alphabet[t.Draw(len(alphabet))], n)
	case "tuple-get":
		o.src = fmt.Sprintf("%s.%s", n, alphabet[t.Draw(len(alphabet))])
	case "tuple-map":
		o.src = fmt.Sprintf("%s :> [.]", n)
	case "set-with":
		o.src = fmt.Sprintf("%s with %s", n, s.small())
	case "set-without":
		o.src = fmt.Sprintf("%s without %s", n, s.small())
	}
	if o.src == "" {
		return nil
	}
	return o
}

func (s *state) anyHoled() bool {
	for _, e := range s.pool {
		if e.holed {
			return true
		}
	}
	return false
}

func holed(v rel.Value) bool {
	if a, ok := v.(rel.Array); ok {
		for _, x := range a.Values() {
			if x == nil {
				return true
			}
		}
	}
	return false
}

func classKind(class string) int {
	switch class {
	case "str":
		return 0
	case "bytes":
		return 1
	}
	return 2
}

// keyOf draws a key expression that is often present in e.
func (s *state) keyOf(e *entry) string {
	switch e.class {
	case "dict":
		if s.t.Bool(3, 4) {
			return fmt.Sprintf("((%s => .@) orderby .)(%d)", e.name, s.t.Draw(3))
		}
		return s.key()
	default:
		return s.idx(e)
	}
}

func (s *state) add(v rel.Value, src, kind string, operands []int) *entry {
	e := &entry{name: fmt.Sprintf("v%d", len(s.pool)), v: v, canon: enc.Canon(v), repr: v.String(), class: enc.Class(v), src: src, operands: operands, holed: holed(v)}
	for _, i := range operands {
		s.pool[i].children++
	}
	s.pool = append(s.pool, e)
	return e
}

// Run executes one history.
func Run(c *run.Ctx) {
	t := c.Tape
	s := &state{c: c, t: t, ctx: arraictx.InitRunCtx(context.Background())}

	// Seeds of the pool, built by different routes so that backing capacity varies.
	nSeeds := t.Range(1, 5)
	for i := 0; i < nSeeds; i++ {
		kind := t.Draw(8)
		src := s.lit(kind)
		switch t.Draw(4) {
		case 1:
			if kind <= 2 {
				src = fmt.Sprintf("%s ++ %s", src, s.lit(kind))
			}
		case 2:
			if kind <= 2 {
				src = fmt.Sprintf("//seq.repeat(%d, %s)", t.Range(1, 3), src)
			}
		case 3:
			if kind <= 2 {
				// without of the last element keeps the parent's array with len < cap
				attr := []string{"@char", "@byte", "@item"}[kind]
				src = fmt.Sprintf("let a = %s ++ %s; let i = ((a => .@) orderby .)((a count) - 1); a without (@: i, %s: a(i))", src, s.lit(kind), attr)
			}
		}
		c.Logf("seed %d: eval %s", i, src)
		v, err, _ := s.eval(src)
		c.Step()
		if err != nil {
			c.Logf("seed %d: %s -> error", i, src)
			continue
		}
		e := s.add(v, src, "seed", nil)
		c.Logf("seed %s = %s -> %s %s", e.name, src, e.class, e.canon)
	}
	if t.Bool(1, 4) {
		// one set large enough for operators that treat big inputs differently (scratch buffers,
		// pools, parallel paths): its orderings stay in the pool while later ones are computed
		n := t.Range(64, 96)
		var parts []string
		for i := 0; i < n; i++ {
			parts = append(parts, fmt.Sprint(i*3+t.Draw(3)))
		}
		src := "{" + strings.Join(parts, ", ") + "}"
		if v, err, _ := s.eval(src); err == nil {
			e := s.add(v, src, "seed", nil)
			c.Logf("seed %s = big set of %d -> %s", e.name, n, e.class)
			c.Probe("big-set-seed")
		}
		c.Step()
	}
	if len(s.pool) == 0 {
		return
	}

	steps := t.Range(2, 40)
	var prev *op
	mutatedOps := 0
	var lastOps []string
	for step := 0; step < steps && len(s.pool) < 64; step++ {
		o := s.genOp(prev)
		if o == nil {
			continue
		}
		c.Step()
		c.Logf("step %d: eval %s", step, o.src)
		v, err, _ := s.eval(o.src)
		prev = o
		if err != nil {
			c.Logf("step %d: %s -> error", step, o.src)
			c.Probe("op-error")
		} else {
			e := s.add(v, o.src, o.kind, o.operands)
			c.Logf("step %d: %s = %s -> %s %s", step, e.name, o.src, e.class, e.canon)
			lastOps = append(lastOps, o.kind)
			mutatedOps++
			if len(o.operands) > 0 && s.pool[o.operands[0]].children >= 2 {
				c.Probe("branching-parent")
			}
		}
		// Oracle 1: every earlier value is what it was.
		for _, e := range s.pool {
			var now string
			if msg, frame, p := run.Guard(func() { now = enc.Canon(e.v) }); p {
				c.Violate("immutable", "C03/"+o.kind+"/"+e.class+"/inspect-panic", "after `%s`: inspecting %s (made by `%s`) panics: %s at %s", o.src, e.name, e.src, msg, frame)
				return
			}
			if now != e.canon {
				c.Violate("immutable", "C03/"+o.kind+"/"+e.class,
					"after `%s`: %s (made by `%s`) changed from %s to %s", o.src, e.name, e.src, e.canon, now)
				return
			}
			// printing is the second view; an unrecoverable failure here (stack overflow) kills the worker and is
			// reported by the orchestrator as a crash verdict of this run
			var printed string
			if msg, frame, p := run.Guard(func() { printed = e.v.String() }); p {
				c.Violate("immutable", "C03/"+o.kind+"/"+e.class+"/print-panic", "after `%s`: printing %s (made by `%s`) panics: %s at %s", o.src, e.name, e.src, msg, frame)
				return
			}
			if printed != e.repr {
				c.Violate("immutable", "C03/"+o.kind+"/"+e.class+"/printed",
					"after `%s`: %s (made by `%s`) printed %s before and prints %s now", o.src, e.name, e.src, e.repr, printed)
				return
			}
		}
		// Oracle 3: a value is what its derivation made it, whatever else was computed from it or its ancestors
		// in between. The step is repeated on operands derived again from nothing (seed literals and the same
		// chain of operations, so the same representation, but none of the side history) and must agree.
		if err == nil && len(o.operands) > 0 && t.Bool(1, 2) {
			if diff := s.freshCheck(o, s.pool[len(s.pool)-1]); diff != "" {
				c.Violate("same-at-every-use", "C03/"+o.kind+"/"+s.pool[o.operands[0]].class+"/history-dependent", "%s", diff)
				return
			}
		}
		// Oracle 2: re-evaluating an earlier step from its recorded operands gives its recorded result.
		if len(s.pool) > nSeeds && t.Bool(1, 3) {
			k := t.Draw(len(s.pool))
			e := s.pool[k]
			if e.operands != nil || e.src != "" {
				// restrict scope to values that existed before e
				saved := s.pool
				s.pool = s.pool[:k]
				v2, err2, _ := s.eval(e.src)
				s.pool = saved
				c.Step()
				if err2 != nil {
					c.Violate("same-at-every-use", "C03/reeval-error/"+e.class, "`%s` evaluated to %s before and fails now: %v", e.src, e.canon, err2)
					return
				}
				if got := enc.Canon(v2); got != e.canon {
					c.Violate("same-at-every-use", "C03/reeval/"+e.class, "`%s` evaluated to %s before and to %s now", e.src, e.canon, got)
					return
				}
			}
		}
	}
	c.Res.Nontrivial = mutatedOps >= 2
	c.Res.State = run.Fingerprint(strings.Join(lastOps, ","))
	if c.Verbose || t.Len()%50 == 0 {
		var srcs []string
		for _, e := range s.pool {
			srcs = append(srcs, e.name+" = "+e.src)
		}
		c.Res.Sample = srcs
	}
}
