// Package bundle is the C15 engine: two simulated hosts and one artefact.
// Host A (build) holds the source tree; the only thing that reaches host B
// (run) is the .arraiz bytes. Host B is not empty: it holds decoy files at the
// same absolute paths with different contents, and has its own cwd.
//
// Real: bundle.BundledScriptsTo, syntax.SetupBundle/bundleLocalFile/
// addModuleSentinel/createConfig, ctxzip, syntax.EvaluateBundleCtx/
// WithBundleRun/GetMainBundleSource, afero zipfs, compiler, evaluator.
// Stub: both hosts' disks (simfs); the process cwd is a real empty directory.
package bundle

import (
	"archive/zip"
	"bytes"
	"context"
	"fmt"
	"io"
	"path"
	"sort"
	"strings"

	rbundle "github.com/arr-ai/arrai/pkg/bundle"
	"github.com/arr-ai/arrai/pkg/importcache"
	"github.com/arr-ai/arrai/rel"
	"github.com/arr-ai/arrai/syntax"

	"aaverif/eng/imports"
	"aaverif/layout"
	"aaverif/run"
	"aaverif/simfs"
)

func init() { run.Register("bundle", Run) }

type bres struct {
	buf      []byte
	err      error
	panicMsg string
	frame    string
	ops      []simfs.Op
}

func doBundle(ctx context.Context, fs *simfs.FS, mainArg string) (r bres) {
	var w bytes.Buffer
	if ctx == nil {
		ctx = imports.Ctx(fs)
	}
	r.panicMsg, r.frame, _ = run.Guard(func() {
		r.err = rbundle.BundledScriptsTo(ctx, mainArg, &w, "")
	})
	r.buf = w.Bytes()
	r.ops = fs.Ops()
	return
}

type rres struct {
	v        rel.Value
	err      error
	panicMsg string
	frame    string
	ops      []simfs.Op
}

func runBundle(fs *simfs.FS, buf []byte) (r rres) {
	r.panicMsg, r.frame, _ = run.Guard(func() {
		r.v, r.err = syntax.EvaluateBundleCtx(imports.Ctx(fs), buf)
	})
	r.ops = fs.Ops()
	return
}

func zipEntries(buf []byte) (map[string]string, error) {
	zr, err := zip.NewReader(bytes.NewReader(buf), int64(len(buf)))
	if err != nil {
		return nil, err
	}
	out := map[string]string{}
	for _, f := range zr.File {
		rc, err := f.Open()
		if err != nil {
			return nil, err
		}
		b, _ := io.ReadAll(rc)
		rc.Close()
		out[f.Name] = string(b)
	}
	return out, nil
}

func sameValue(a, b rel.Value) bool { return a.Equal(b) && a.String() == b.String() }

// Run executes one scenario.
func Run(c *run.Ctx) {
	t := c.Tape
	W := imports.Cwd()
	l := layout.Gen(t, W, layout.Opts{MaxFiles: 10, Data: true, NestedMod: true})
	main := l.Mains[0]
	hostA := simfs.New("hostA", W)
	l.Install(hostA)

	// how the main file is named on host A
	mainArg := main.Path
	cdA := ""
	switch t.Draw(4) {
	case 1:
		cdA = strings.TrimPrefix(main.Dir(), W)
		mainArg = path.Base(main.Path)
	case 2:
		cdA = strings.TrimPrefix(l.Top, W)
		mainArg = strings.TrimPrefix(main.Path, l.Top+"/")
	case 3:
		mainArg = strings.TrimPrefix(main.Path, W+"/")
	}
	// host B: decoys at the same absolute paths, own cwd
	hostB := simfs.New("hostB", W)
	for _, f := range l.Files {
		switch f.Kind {
		case "arrai":
			hostB.Put(f.Path, `"DECOY-MARKER"`)
		case "json":
			hostB.Put(f.Path, `{"tag": "DECOY-MARKER"}`)
		default:
			hostB.Put(f.Path, "DECOY-MARKER\n")
		}
	}
	for p := range l.Sents {
		hostB.Put(p, "module example.com/DECOY-MARKER\n")
	}
	hostB.Put("/module/example.com/mod0/main.arrai", `"DECOY-MARKER"`)
	hostB.Put("/config.arrai", `(main_root: "DECOY-MARKER", main_file: "/DECOY-MARKER")`)
	cdB := []string{"", "/o", strings.TrimPrefix(l.Top, W), "/m/a"}[t.Draw(4)]

	c.Logf("layout %v", l.Describe())
	c.Logf("host A: main %s cwd +%q; host B: cwd +%q", mainArg, cdA, cdB)

	// --- host A
	backA := imports.Chdir(cdA)
	fsSrc := hostA.Clone("hostA-src")
	fsSrc.Cwd = path.Join(W, cdA)
	// one third of the scenarios evaluate and then bundle on ONE context that carries an import cache,
	// as an embedding host would (the CLI uses a fresh context for each command)
	sharedCtx := t.Bool(1, 3)
	srcCtx := imports.Ctx(fsSrc)
	if sharedCtx {
		srcCtx = importcache.WithNewImportCache(srcCtx)
		c.Probe("evaluate-then-bundle-on-one-context")
	}
	src := imports.EvalFile(srcCtx, fsSrc, mainArg)
	srcReads := imports.ContentReads(fsSrc.Ops())
	var b bres
	if sharedCtx {
		fsSrc.ResetOps()
		b = doBundle(srcCtx, fsSrc, mainArg)
	} else {
		fsBld := hostA.Clone("hostA-bundle")
		fsBld.Cwd = path.Join(W, cdA)
		b = doBundle(nil, fsBld, mainArg)
	}
	backA()
	c.Res.Steps += len(srcReads) + len(b.ops)
	c.Logf("source: err=%v panic=%q reads=%d; bundle: err=%v panic=%q bytes>0=%v", src.Err() != nil, src.PanicMsg(), len(srcReads), b.err != nil, b.panicMsg, len(b.buf) > 0)

	kinds := importKinds(main)
	c.Res.State = run.Fingerprint(kinds, fmt.Sprint(l.HasMod, len(l.Sents), len(srcReads), cdA != "", cdB))
	c.Res.Nontrivial = len(srcReads) >= 2
	if t.Len()%20 == 0 || c.Verbose {
		c.Res.Sample = map[string]any{"files": l.Describe(), "main": mainArg, "cwd_build": cdA, "cwd_run": cdB}
	}
	if src.PanicMsg() != "" {
		c.Probe("source-eval-panicked")
		return
	}
	if b.panicMsg != "" {
		c.Violate("bundle-like-source", "C15/bundle-panic/"+b.frame, "bundling panicked: %.300s (main %s, cwd +%q; layout %v)", b.panicMsg, mainArg, cdA, l.Describe())
		return
	}
	if sent, ok := l.Sents[main.ModRoot+"/go.mod"]; ok && !strings.HasPrefix(sent, "module ") && b.err != nil {
		// the main file's own module sentinel has no `module` line: the bundler's refusal is the documented
		// behaviour ("sentinel does not show module path"), not a disagreement with the source run
		c.Probe("main-root-sentinel-without-module-line-refused")
		return
	}
	if src.Err() == nil && b.err != nil {
		c.Violate("bundle-like-source", "C15/bundle-refused/"+kinds, "the script evaluates from source but bundling failed: %.300s (main %s, cwd +%q; layout %v)", b.err.Error(), mainArg, cdA, l.Describe())
		return
	}
	if b.err != nil {
		c.Probe("both-source-and-bundle-fail")
		return
	}

	// --- host B
	check := func(buf []byte, what string) bool {
		backB := imports.Chdir(cdB)
		fsRun := hostB.Clone("hostB")
		fsRun.Cwd = path.Join(W, cdB)
		r := runBundle(fsRun, buf)
		backB()
		c.Res.Steps += len(r.ops)
		c.Logf("%s run: err=%v panic=%q hostB-ops=%d", what, r.err != nil, r.panicMsg, len(r.ops))
		if len(r.ops) > 0 {
			o := r.ops[0]
			c.Violate("reads-nothing-else", "C15/host-touched/"+o.Kind, "%s: running the bundle touched the host file system: %s %s (and %d more operations) (main %s; layout %v)", what, o.Kind, o.Path, len(r.ops)-1, mainArg, l.Describe())
			return false
		}
		text := ""
		if r.v != nil {
			text = r.v.String()
		}
		if r.err != nil {
			text += r.err.Error()
		}
		if strings.Contains(text+r.panicMsg, "DECOY-MARKER") {
			c.Violate("reads-nothing-else", "C15/decoy-leaked", "%s: content of the run host reached the result: %.300s", what, text)
			return false
		}
		switch {
		case r.panicMsg != "":
			c.Violate("bundle-like-source", "C15/run-panic/"+kinds, "%s: the script evaluates from source (err=%v) but running the bundle panicked: %.300s (main %s, cwd +%q -> +%q; layout %v)", what, src.Err() != nil, r.panicMsg, mainArg, cdA, cdB, l.Describe())
			return false
		case src.Err() == nil && r.err != nil:
			c.Violate("bundle-like-source", "C15/run-fails/"+kinds, "%s: the script evaluates from source but the bundle fails: %.400s (main %s, cwd +%q -> +%q; layout %v)", what, r.err.Error(), mainArg, cdA, cdB, l.Describe())
			return false
		case src.Err() != nil && r.err == nil:
			c.Violate("bundle-like-source", "C15/run-succeeds-where-source-fails", "%s: the script fails from source (%.200s) but the bundle evaluates to %s", what, src.Err().Error(), r.v)
			return false
		case src.Err() == nil && !sameValue(src.V(), r.v):
			c.Violate("bundle-like-source", "C15/different-value/"+kinds, "%s: source gives %s, bundle gives %s (main %s, cwd +%q -> +%q; layout %v)", what, src.V(), r.v, mainArg, cdA, cdB, l.Describe())
			return false
		}
		return true
	}
	if !check(b.buf, "fault-free bundle") {
		return
	}
	// archive invariant: every file read for content from source is in the archive exactly once
	ents, zerr := zipEntries(b.buf)
	if zerr != nil {
		c.Violate("bundle-like-source", "C15/bad-archive", "the bundle is not a readable zip: %v", zerr)
		return
	}
	snap := hostA.Snapshot()
	for _, p := range srcReads {
		content := strings.TrimPrefix(snap[p], "F")
		n := 0
		for _, e := range ents {
			if e == content {
				n++
			}
		}
		if n != 1 {
			var names []string
			for k := range ents {
				names = append(names, k)
			}
			sort.Strings(names)
			c.Violate("archive-complete", fmt.Sprintf("C15/archive-copies-%d", min(n, 2)), "%s was read during source evaluation and is in the archive %d times (entries %v)", strings.TrimPrefix(p, W), n, names)
			return
		}
	}
	c.Probe("bundle-equals-source")
	if len(l.Sents) > 1 {
		c.Probe("nested-module-layout")
	}

	// --- faults on host A during bundling: a bundle reported as built must still be right
	if c.Knob("faults", "off") != "enum" || src.Err() != nil {
		return
	}
	for i, op := range b.ops {
		i, op := i, op
		fs2 := hostA.Clone("hostA-bundle-fault")
		fs2.Cwd = path.Join(W, cdA)
		fired := false
		fs2.Before = func(seq int, kind, p string) *simfs.Fault {
			if seq == i {
				fired = true
				return &simfs.Fault{Partial: op.N / 2}
			}
			return nil
		}
		back := imports.Chdir(cdA)
		b2 := doBundle(nil, fs2, mainArg)
		back()
		c.Res.Steps += len(b2.ops)
		if !fired {
			continue
		}
		c.Fault(op.Kind)
		if b2.panicMsg != "" {
			c.Violate("bundle-like-source", "C15/fault-panic/"+op.Kind, "I/O error at op %d (%s %s) while bundling: panic %.300s", i, op.Kind, strings.TrimPrefix(op.Path, W), b2.panicMsg)
			return
		}
		if b2.err != nil {
			c.Probe("fault-reported")
			continue
		}
		c.Probe("fault-tolerated")
		if !check(b2.buf, fmt.Sprintf("bundle built despite an I/O error at op %d (%s %s)", i, op.Kind, strings.TrimPrefix(op.Path, W))) {
			if c.Res.V != nil {
				c.Res.V.Sig = "C15/fault-swallowed/" + op.Kind
			}
			return
		}
	}
}

func importKinds(main *layout.File) string {
	ks := map[string]bool{}
	for _, f := range layout.Closure(main) {
		for _, im := range f.Imports {
			k := "rel"
			if im.Rooted {
				k = "rooted"
			}
			if im.Target.Kind != "arrai" {
				k += "-data"
			}
			ks[k] = true
		}
	}
	var out []string
	for k := range ks {
		out = append(out, k)
	}
	sort.Strings(out)
	if len(out) == 0 {
		return "no-imports"
	}
	return strings.Join(out, "+")
}
