// Package eng links every engine into the worker.
package eng

import (
	_ "aaverif/eng/atest"
	_ "aaverif/eng/bundle"
	_ "aaverif/eng/engsim"
	_ "aaverif/eng/hist"
	_ "aaverif/eng/imports"
	_ "aaverif/eng/outdir"
	_ "aaverif/eng/race"
	_ "aaverif/eng/sched"
	_ "aaverif/eng/seeds"
)
