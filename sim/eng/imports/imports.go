// Package imports is the C16 engine: local imports on a simulated disk.
//
// Modes (knob "mode"):
//
//	consistent  acyclic generated layouts; the value of every import must be the
//	            value of the file the documented rules resolve it to, and every
//	            content read must stay below the module root
//	adversarial import strings built from ., .., whitespace, absolute-looking
//	            tails ...; only confinement and information flow are judged
//	cyclic      import graphs with cycles, evaluated in a synctest bubble: the
//	            verdict "hang" is quiescence with the task unfinished
//
// Real: syntax.Compile/EvaluateExpr, compilePackage, importLocalFile,
// findRootFromModule, fileValue, importcache, ctxrootcache. Stub: the disk.
package imports

import (
	"context"
	"fmt"
	"os"
	"path"
	"sort"
	"strings"
	"syscall"
	"testing"
	"testing/synctest"

	"github.com/arr-ai/arrai/pkg/arraictx"
	"github.com/arr-ai/arrai/pkg/ctxfs"
	"github.com/arr-ai/arrai/rel"
	"github.com/arr-ai/arrai/syntax"

	"aaverif/layout"
	"aaverif/run"
	"aaverif/simfs"
	"aaverif/tape"
)

func init() { run.Register("imports", Run) }

// Cwd is the worker's real working directory; layouts live below it so that
// relative paths mean the same on the simulated disk and to filepath.Abs.
func Cwd() string {
	wd, err := os.Getwd()
	if err != nil {
		panic(err)
	}
	return wd
}

// Ctx builds an evaluation context over fs.
func Ctx(fs *simfs.FS) context.Context {
	ctx := arraictx.InitRunCtx(context.Background())
	ctx = ctxfs.SourceFsOnto(ctx, fs)
	ctx = ctxfs.RuntimeFsOnto(ctx, fs)
	return ctx
}

type evalResult struct {
	v        rel.Value
	err      error
	panicMsg string
	frame    string
}

// V, Err, PanicMsg and Frame expose the result to other engines.
func (r evalResult) V() rel.Value     { return r.v }
func (r evalResult) Err() error       { return r.err }
func (r evalResult) PanicMsg() string { return r.panicMsg }
func (r evalResult) Frame() string    { return r.frame }

// EvalFile evaluates the file at p (as `arrai run p` does).
func EvalFile(ctx context.Context, fs *simfs.FS, p string) (r evalResult) {
	r.panicMsg, r.frame, _ = run.Guard(func() {
		f, err := fs.Open(p)
		if err != nil {
			r.err = err
			return
		}
		var buf []byte
		tmp := make([]byte, 4096)
		for {
			n, err := f.Read(tmp)
			buf = append(buf, tmp[:n]...)
			if err != nil {
				break
			}
		}
		f.Close()
		r.v, r.err = syntax.EvaluateExpr(ctx, p, string(buf))
	})
	return
}

// Chdir moves the process into a real, empty directory below the worker's cwd
// (created on demand) and returns the function that moves back.
func Chdir(rel string) func() {
	wd := Cwd()
	dir := path.Join(wd, rel)
	if err := os.MkdirAll(dir, 0o755); err != nil {
		panic(err)
	}
	if err := os.Chdir(dir); err != nil {
		panic(err)
	}
	return func() {
		if err := os.Chdir(wd); err != nil {
			panic(err)
		}
	}
}

// ContentReads lists the files whose bytes were actually delivered (a failed
// or empty open attempt reads nothing), in first-read order.
func ContentReads(ops []simfs.Op) []string {
	var out []string
	seen := map[string]bool{}
	for _, o := range ops {
		if o.Kind == "read" && o.N > 0 && !seen[o.Path] {
			seen[o.Path] = true
			out = append(out, o.Path)
		}
	}
	return out
}

func under(p, root string) bool { return p == root || strings.HasPrefix(p, root+"/") }

// expected builds the value the documented rules give file f, with data files bound in scope.
func expected(l *layout.Layout, base *simfs.FS, f *layout.File, imp *layout.Imp, scope *rel.Scope, n *int) (string, error) {
	if f.Kind != "arrai" {
		// the file evaluated alone, by the plainest spelling, from its own directory, on a fresh context
		fs := base.Clone("probe")
		dec := ""
		if imp != nil && imp.Explicit {
			dec = imp.Spelling[:strings.Index(imp.Spelling, "{")]
		}
		src := "//" + dec + "{./" + path.Base(f.Path) + "}"
		v, err := syntax.EvaluateExpr(Ctx(fs), path.Join(f.Dir(), "zz_probe.arrai"), src)
		if err != nil {
			return "", fmt.Errorf("probe %s: %v", src, err)
		}
		name := fmt.Sprintf("d%d", *n)
		*n++
		*scope = scope.With(name, v)
		return name, nil
	}
	var deps []string
	for _, im := range f.Imports {
		s, err := expected(l, base, im.Target, im, scope, n)
		if err != nil {
			return "", err
		}
		deps = append(deps, s)
	}
	return fmt.Sprintf("(tag: %q, deps: [%s])", f.Tag, strings.Join(deps, ", ")), nil
}

var advSegs = []string{".", "..", "...", "a", "x", " ", "\t", ".. ", " ..", "", "outside", "secret", "..\n", "....", "m", "\n"}

func advImport(t *tape.Tape, l *layout.Layout) (imp, class string) {
	secretAbs := l.Base + "/outside/secret"
	var s string
	switch t.Draw(10) {
	case 8:
		// a sibling directory whose name begins like the importing script's directory
		s, class = " ../"+path.Base(l.Mains[0].Dir())+"-secret/x", "ws-sibling-prefix"
	case 9:
		s, class = " ../"+path.Base(l.Top)+"-secret/x", "ws-sibling-prefix"
	case 0:
		s, class = " "+secretAbs, "ws-abs"
	case 1:
		s, class = "\t"+secretAbs+" ", "ws-abs"
	case 2:
		s, class = secretAbs, "abs"
	case 3:
		s, class = " /etc/sim/secret", "ws-abs"
	case 4:
		s, class = "....//....//outside/secret", "dots"
	default:
		n := t.Range(1, 5)
		var segs []string
		for i := 0; i < n; i++ {
			segs = append(segs, advSegs[t.Draw(len(advSegs))])
		}
		s = strings.Join(segs, "/")
		if t.Bool(1, 3) {
			s += "/outside/secret"
		}
		class = "segments"
		if strings.Contains(s, "..") {
			class += "-dotdot"
		}
		if strings.ContainsAny(s, " \t\n") {
			class += "-ws"
		}
	}
	if t.Bool(1, 5) {
		s = " " + s
	}
	if t.Bool(1, 2) {
		return "{./" + s + "}", "rel-" + class
	}
	return "{/" + s + "}", "rooted-" + class
}

// Run executes one scenario.
func Run(c *run.Ctx) {
	switch c.Knob("mode", "consistent") {
	case "cyclic":
		runCyclic(c)
	default:
		runDisk(c)
	}
}

func runDisk(c *run.Ctx) {
	t := c.Tape
	adversarial := c.Knob("mode", "consistent") == "adversarial"
	W := Cwd()
	l := layout.Gen(t, W, layout.Opts{MaxFiles: 8, Data: !adversarial, NestedMod: true})
	main := l.Mains[0]
	var advs []string
	advClass := ""
	if adversarial {
		// main gets adversarial imports, each guarded so that one failure does not hide the others:
		// one import per scenario
		a, cl := advImport(t, l)
		advs = append(advs, a)
		advClass = cl
		main.Content = fmt.Sprintf("(tag: %q, adv: //%s)", main.Tag, a)
	}
	// an imported file is a closed expression: a name bound at the import site must not reach it
	freeProbe := !adversarial && t.Bool(1, 6)
	if freeProbe {
		main.Content = fmt.Sprintf("(tag: %q, probe: let zz_free = %d; //{./zzfree})", main.Tag, t.Draw(9))
	}
	// ... and it is its own compilation unit: syntax that is only legal on the right of a merge must not
	// become legal in a file because the import expression happens to stand there
	sugarProbe := !adversarial && !freeProbe && t.Bool(1, 6)
	if sugarProbe {
		main.Content = fmt.Sprintf("(tag: %q, probe: (a: (b: 1)) +> //{./zzsugar}, again: //{./zzsugar})", main.Tag)
		freeProbe = true // same verdict: the evaluation must fail
	}
	base := simfs.New("disk", W)
	l.Install(base)
	if sugarProbe {
		base.Put(main.Dir()+"/zzsugar.arrai", "(a +>: (c: 3))")
		c.Probe("import-of-merge-sugar-file-inside-a-merge")
	}
	if freeProbe && !sugarProbe {
		base.Put(main.Dir()+"/zzfree.arrai", "(free: zz_free)")
		c.Probe("import-of-file-with-free-name")
	}

	// how the main file is named: absolute, or relative to a cwd inside/outside the tree
	mainArg := main.Path
	cd := ""
	switch t.Draw(4) {
	case 1: // cwd = the main file's directory
		cd = strings.TrimPrefix(main.Dir(), W)
		mainArg = path.Base(main.Path)
	case 2: // cwd = project top
		if under(main.Path, l.Top) {
			cd = strings.TrimPrefix(l.Top, W)
			mainArg = strings.TrimPrefix(main.Path, l.Top+"/")
		}
	case 3: // cwd = base
		mainArg = strings.TrimPrefix(main.Path, W+"/")
	}
	fs := base.Clone("disk")
	if cd != "" {
		back := Chdir(cd)
		defer back()
		fs.Cwd = path.Join(W, cd)
	}
	// a configuration, not a transient fault: the nested module's sentinel cannot be examined (EACCES on
	// every Stat). The root search must then stop; climbing on would adopt the outer module's root.
	unreadable := ""
	if _, nested := l.Sents[l.Top+"/inner/go.mod"]; nested && !adversarial && t.Bool(1, 4) {
		unreadable = l.Top + "/inner/go.mod"
		fs.Before = func(seq int, kind, p string) *simfs.Fault {
			if kind == "stat" && p == unreadable {
				c.Fault("stat-eacces")
				return &simfs.Fault{Err: syscall.EACCES}
			}
			return nil
		}
		c.Probe("nested-sentinel-unreadable")
	}
	c.Logf("layout %v", l.Describe())
	c.Logf("main %s (cwd +%q)", mainArg, cd)

	r := EvalFile(Ctx(fs), fs, mainArg)
	ops := fs.Ops()
	c.Res.Steps += len(ops)
	root := main.ModRoot
	if root == "" {
		root = main.Dir()
	}
	reads := ContentReads(ops)
	c.Logf("result err=%v panic=%q reads=%v", r.err != nil, r.panicMsg, reads)
	kind := "consistent"
	if adversarial {
		kind = advClass
	}
	c.Res.State = run.Fingerprint(kind, fmt.Sprint(len(reads)), fmt.Sprint(r.err != nil), fmt.Sprint(l.HasMod))
	c.Res.Nontrivial = len(reads) >= 2
	if t.Len()%20 == 0 || c.Verbose {
		c.Res.Sample = map[string]any{"files": l.Describe(), "main": mainArg, "cwd": cd, "reads": reads}
	}

	// (i) confinement, judged on the I/O trace
	for _, p := range reads {
		if !under(p, root) {
			sig := "C16/escape/" + kind
			c.Violate("confined", sig, "content of %s was read; the importing script's module root is %s (main `%s`)", p, root, strings.ReplaceAll(main.Content, "\n", "\\n"))
			return
		}
	}
	// (ii) information flow
	text := ""
	if r.v != nil {
		text = r.v.String()
	}
	if r.err != nil {
		text += r.err.Error()
	}
	for sp, content := range l.Secrets {
		// a planted file only counts as a secret if it lies outside THIS script's root (a sibling of the
		// main file's directory is inside the module root when the main file sits in a sub-directory)
		if !under(sp, root) && strings.Contains(text, strings.Trim(content, `"`)) {
			c.Violate("confined", "C16/secret-leaked/"+kind, "%s lies outside the importing script's root %s, yet its content reached the result: %.300s (main `%s`)", sp, root, text, main.Content)
			return
		}
	}
	if adversarial {
		if r.panicMsg != "" {
			c.Probe("adversarial-import-panicked")
		}
		if r.err == nil && r.panicMsg == "" {
			c.Probe("adversarial-import-resolved-inside")
		} else {
			c.Probe("adversarial-import-refused")
		}
		return
	}
	if unreadable != "" {
		// with an unreadable sentinel only confinement and information flow are judged
		return
	}
	if freeProbe {
		if r.err == nil && r.panicMsg == "" {
			if sugarProbe {
				c.Violate("consistent", "C16/import-compiled-with-importer-flags", "zzsugar.arrai is `(a +>: (c: 3))`, which does not compile on its own; imported on the right of a `+>` it evaluated (%s): what an imported file means depends on where the import expression stands", r.v)
				return
			}
			c.Violate("consistent", "C16/import-sees-importer-scope", "zzfree.arrai uses the name zz_free, which it does not define; imported below `let zz_free = ...` it evaluated to %s: the value of an imported file depends on who imports it", r.v)
		}
		return
	}
	// (iii) consistency
	if r.panicMsg != "" {
		c.Violate("no-crash", "C16/panic/"+r.frame, "evaluation panicked: %s (layout %v)", r.panicMsg, l.Describe())
		return
	}
	scope := rel.EmptyScope
	n := 0
	src, perr := expected(l, base, main, nil, &scope, &n)
	if perr != nil {
		c.Probe("data-file-probe-failed")
		c.Logf("probe failed: %v", perr)
		if r.err == nil {
			c.Violate("consistent", "C16/data-import-inconsistent", "a data file cannot be imported alone (%v) but the main file evaluated (layout %v)", perr, l.Describe())
		}
		return
	}
	want, werr := syntax.EvalWithScope(arraictx.InitRunCtx(context.Background()), syntax.NoPath, src, scope)
	if werr != nil {
		c.Logf("expected value does not evaluate: %v", werr)
		c.Probe("expected-eval-failed")
		return
	}
	if r.err != nil {
		c.Violate("consistent", "C16/valid-import-refused/"+importKinds(main), "every import resolves to an existing file inside the module root, yet evaluation failed: %.400s (main arg %s, cwd +%q; layout %v)", r.err.Error(), mainArg, cd, l.Describe())
		return
	}
	if !want.Equal(r.v) || want.String() != r.v.String() {
		c.Violate("consistent", "C16/wrong-file/"+importKinds(main), "value %s differs from the value of the files the documented rules resolve to, %s (main arg %s, cwd +%q; layout %v)", r.v, want, mainArg, cd, l.Describe())
		return
	}
	c.Probe("consistent-ok")
	if len(layout.Closure(main)) > len(uniqueTargets(main)) {
		c.Probe("diamond-or-shared-import")
	}
}

func uniqueTargets(f *layout.File) map[string]bool {
	m := map[string]bool{}
	for _, im := range f.Imports {
		m[im.Target.Path] = true
	}
	return m
}

func importKinds(main *layout.File) string {
	ks := map[string]bool{}
	for _, f := range layout.Closure(main) {
		for _, im := range f.Imports {
			k := "rel"
			if im.Rooted {
				k = "rooted"
			}
			if im.Target.Kind != "arrai" {
				k += "-data"
			}
			ks[k] = true
		}
	}
	var out []string
	for k := range ks {
		out = append(out, k)
	}
	sort.Strings(out)
	if len(out) == 0 {
		return "no-imports"
	}
	return strings.Join(out, "+")
}

// ---- cycles ----

func runCyclic(c *run.Ctx) {
	t := c.Tape
	W := Cwd()
	top := W + "/m"
	fs := simfs.New("disk", W)
	hasMod := t.Bool(1, 2)
	if hasMod {
		fs.Put(top+"/go.mod", "module example.com/cyc\n")
	}
	n := t.Range(1, 5)
	if t.Bool(1, 6) {
		n = t.Range(11, 16) // a back edge to a file far up the chain of imports
	}
	names := []string{"a", "b", "c", "d", "e", "f", "g", "h", "i", "j", "k", "l", "m", "n", "o", "p"}[:n]
	control := t.Bool(1, 4) // acyclic control
	shape := "self"
	if n > 1 {
		shape = fmt.Sprintf("cycle%d", n)
	}
	if control {
		shape = "acyclic-control"
	}
	spell := func(i int) string {
		name := names[i]
		switch {
		case hasMod && t.Bool(1, 3):
			return "{/" + name + "}"
		case t.Bool(1, 3):
			return "{./" + name + ".arrai}"
		case t.Bool(1, 4):
			return "{./x/../" + name + "}"
		}
		return "{./" + name + "}"
	}
	var desc []string
	for i, name := range names {
		next := (i + 1) % n
		var content string
		switch {
		case control && i == n-1:
			content = fmt.Sprintf("(tag: %q)", name)
		default:
			content = fmt.Sprintf("(tag: %q, next: //%s)", name, spell(next))
		}
		// extra acyclic imports as noise (diamonds)
		fs.Put(top+"/"+name+".arrai", content)
		desc = append(desc, name+".arrai: "+content)
	}
	mainPath := top + "/a.arrai"
	if t.Bool(1, 2) {
		// an entry file outside the cycle: every file of the cycle is then reached as an import, possibly
		// by a spelling different from the one that closes the cycle
		content := fmt.Sprintf("(tag: \"entry\", next: //%s)", spell(0))
		fs.Put(top+"/entry.arrai", content)
		desc = append(desc, "entry.arrai: "+content)
		mainPath = top + "/entry.arrai"
		c.Probe("cycle-entered-through-an-import")
	}
	c.Logf("files %v", desc)
	var r evalResult
	finished := false
	func() {
		defer func() {
			if rec := recover(); rec != nil {
				msg := fmt.Sprint(rec)
				if !strings.Contains(msg, "deadlock") {
					c.Violate("no-crash", "C16/cycle-panic", "panic: %s", msg)
				}
			}
		}()
		synctest.Test(c.T, func(*testing.T) {
			go func() {
				r = EvalFile(Ctx(fs), fs, mainPath)
				finished = true
			}()
			synctest.Wait()
		})
	}()
	c.Res.Steps += fs.NOps()
	c.Res.State = run.Fingerprint(shape, fmt.Sprint(hasMod), strings.Join(desc, ";"))
	c.Res.Nontrivial = n >= 2
	if t.Len()%10 == 0 || c.Verbose {
		c.Res.Sample = map[string]any{"files": desc, "main": mainPath, "shape": shape}
	}
	c.Logf("finished=%v err=%v panic=%q", finished, r.err != nil, r.panicMsg)
	if c.Failed() {
		return
	}
	switch {
	case !finished:
		c.Violate("cycle-reported", "C16/cycle-hang/"+shape, "evaluation of %s never returns: the bubble is quiescent with the task blocked (files %v)", mainPath, desc)
	case r.panicMsg != "":
		c.Violate("cycle-reported", "C16/cycle-panic/"+shape, "evaluation panicked instead of reporting the cycle: %.200s (files %v)", r.panicMsg, desc)
	case control && r.err != nil:
		c.Violate("consistent", "C16/acyclic-refused", "acyclic import chain failed: %.300s (files %v)", r.err.Error(), desc)
	case !control && r.err == nil:
		c.Violate("cycle-reported", "C16/cycle-value/"+shape, "an import cycle evaluated to %s (files %v)", r.v, desc)
	case control:
		c.Probe("acyclic-control-ok")
	default:
		c.Probe("cycle-reported-as-error")
	}
}
