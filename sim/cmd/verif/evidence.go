package main

import (
	"encoding/json"
	"os"
	"path/filepath"
	"sort"
	"time"
)

func writeEvidence(p *Prop, tier string, verifSeed uint64, a *agg, start time.Time, violations int, knownSeen []string, perBatch map[string]int) {
	wall := time.Since(start).Seconds()
	samples := a.samples
	if len(samples) == 0 {
		samples = []any{"(no sample recorded)"}
	}
	cov := map[string]any{
		"evaluations":         a.runs,
		"distinct_nontrivial": len(a.ntStates),
		"rule":                p.Rule,
		"samples":             samples,
		"runs":                a.runs,
		"runs_per_batch":      perBatch,
		"runs_per_hour":       int(float64(a.runs) / (wall + 1e-9) * 3600),
		"seeds":               map[string]any{"verif_seed": verifSeed, "first_run_seed": a.firstSeed, "last_run_seed": a.lastSeed},
		"sim_steps":           a.steps,
		"simulated_time":      "no checked property depends on time; simulated time is counted in steps (sim_steps). The only clock inside a bubble is the bubble's; it advances only where a harness lets it (C17: while an observer callback is blocked), reported as simulated_seconds.",
		"simulated_seconds":   a.probes["simulated-seconds"],
		"faults_fired":        a.faults,
		"probes":              a.probes,
		"distinct_event_logs": len(a.traces),
		"distinct_schedules":  len(a.scheds),
		"distinct_states":     len(a.states),
		"nontrivial_runs":     a.nontrivial,
		"components":          p.Components,
		"determinism_selfcheck": map[string]any{
			"runs_executed_twice_in_fresh_processes": a.selfchecked, "divergences": len(a.selfdiverge)},
		"known_findings_seen": knownSeen,
		"violating_signatures": func() []string {
			var s []string
			for k := range a.violations {
				s = append(s, k)
			}
			sort.Strings(s)
			return s
		}(),
	}
	doc := map[string]any{
		"property_id": p.ID,
		"tier":        tier,
		"seed":        int64(verifSeed % (1 << 62)),
		"level":       p.Level,
		"coverage":    cov,
		"assumptions": p.Assume,
		"wall_s":      wall,
		"violations":  violations,
	}
	bs, _ := json.MarshalIndent(doc, "", " ")
	dir := filepath.Join(verifDir, "evidence")
	os.MkdirAll(dir, 0o755)
	os.WriteFile(filepath.Join(dir, p.ID+".json"), bs, 0o644)
}
