package main

import "time"

func findProp(id string) *Prop {
	for i := range props {
		if props[i].ID == id {
			return &props[i]
		}
	}
	return nil
}

var props = []Prop{
	{
		ID:    "C03",
		Level: "exploration",
		Rule: "Seeded branching operation histories (2-40 derivations by 1 logical client over a pool of <=64 live values; operations drawn from with/without at end/first/last/interior/far indices, ++, offset, >>, >>>, |, &, &~, where, =>, joins, nest, rank, orderby, +>, //seq.*, array/tuple/dict patterns) evaluated by the real compiler+evaluator; after every step every pool value is re-encoded by the harness's own walker and compared with its snapshot, and a random earlier step is re-evaluated from its operands. A run is non-trivial if >=2 derivations succeeded; distinct = distinct sequence of successful operation kinds.",
		Components: map[string][]string{"real": {"syntax (parser, compiler, stdlib)", "rel (all value representations and operators)"}, "stub": {}},
		Assume:     []string{"enumeration of a value (Enumerator/Tuple.Enumerator/Number) reports its content faithfully", "no fault kind applies to this property; none is injected"},
		Batches: []Batch{
			{Name: "hist", Engine: "hist", Quick: 4000, Thorough: 400000, Timeout: 30 * time.Second},
		},
	},
}
