package main

import "time"

func findProp(id string) *Prop {
	for i := range props {
		if props[i].ID == id {
			return &props[i]
		}
	}
	return nil
}

var props = []Prop{
	{
		ID:         "C03",
		Level:      "exploration",
		Rule:       "Seeded branching operation histories (2-40 derivations by 1 logical client over a pool of <=64 live values; operations drawn from with/without at end/first/last/interior/far indices, ++, offset, >>, >>>, |, &, &~, where, =>, joins, nest, rank, orderby, +>, //seq.*, array/tuple/dict patterns) evaluated by the real compiler+evaluator; after every step every pool value is re-encoded by the harness's own walker and compared with its snapshot, and a random earlier step is re-evaluated from its operands. A run is non-trivial if >=2 derivations succeeded; distinct = distinct sequence of successful operation kinds.",
		Components: map[string][]string{"real": {"syntax (parser, compiler, stdlib)", "rel (all value representations and operators)"}, "stub": {}},
		Assume:     []string{"enumeration of a value (Enumerator/Tuple.Enumerator/Number) reports its content faithfully", "no fault kind applies to this property; none is injected"},
		Batches: []Batch{
			{Name: "hist", Engine: "hist", Quick: 4000, Thorough: 400000, Timeout: 30 * time.Second},
		},
	},
	{
		ID:         "C19",
		Level:      "fault_enumeration",
		Rule:       "Scenario = (output description generated from the documented grammar incl. every ifExists value and 21 kinds of invalid member at a drawn position, produced by evaluating generated arr.ai source; pre-existing simulated disk state drawn from the same name pool so collisions are frequent). arrai.OutputValue runs against the simulated disk; the resulting full-disk snapshot and the operation log are compared with a reference model of docs/docs/cli/eval.md (reject => failure and byte-identical disk; valid => success and exactly the described tree; nothing outside PATH mutated). For valid scenarios the run is repeated once per disk operation of the fault-free run with that operation failing (mkdir/create/write-with-prefix/sync/close/removeall/stat): success may only be reported with the described tree; where the command survives the first fault, a second fault is injected at each later operation (fault sequences of length 2, at most 40 pairs per scenario). Non-trivial = more than 2 disk operations; distinct = distinct (model verdict, ifExists contexts hit, number of top-level entries).",
		Components: map[string][]string{"real": {"pkg/arrai/out.go (OutputValue and below)", "syntax (evaluation of the description source)", "rel"}, "stub": {"disk: aaverif/simfs (in-memory POSIX-like afero.Fs with operation log and fault injection)"}},
		Assume:     []string{"simfs reproduces POSIX semantics for the operations out.go uses (Stat, Mkdir, Create, Write, Sync, Close, RemoveAll)", "documentation docs/docs/cli/eval.md is the specification; where it is silent (file/dir kind collisions, entry names that are not one path element, invalid content under an ignored existing entry) several outcomes are accepted"},
		Batches: []Batch{
			{Name: "dir", Engine: "outdir", Quick: 3000, Thorough: 300000, Knobs: map[string]string{"invalid": "some"}, Timeout: 60 * time.Second},
			{Name: "dir-faults", Engine: "outdir", Quick: 400, Thorough: 30000, Knobs: map[string]string{"invalid": "none", "faults": "enum"}, Timeout: 60 * time.Second},
			{Name: "dir-badnames", Engine: "outdir", Quick: 500, Thorough: 30000, Knobs: map[string]string{"invalid": "none", "badnames": "on"}, Timeout: 60 * time.Second},
			{Name: "file", Engine: "outdir", Quick: 400, Thorough: 20000, Knobs: map[string]string{"mode": "file", "invalid": "some", "faults": "enum"}, Timeout: 60 * time.Second},
		},
	},
	{
		ID:         "C20",
		Level:      "fault_enumeration",
		Rule:       "Scenario = simulated directory layout (1-4 *_test.arrai files in nested directories, a directory named like a test file, hidden directories holding failing/broken tests that must be skipped, non-test decoys, files importing siblings; target given absolute, relative, as a sub-directory or as a single file) x generated result trees (tuples/arrays/dicts nested <=4 built by several routes incl. +>, ++ and offset arrays; leaves true/false/other by several spellings; optional syntax or evaluation errors). test.RunTests runs against the simulated disk; its error and parsed report are compared with the leaf census the generator wrote down (pass iff all leaves true; one report line per leaf; summary counts add up). Then the run is repeated once per disk operation of the fault-free run with that operation failing (stat/open/read-with-prefix/readdir/close): a fault may turn a pass into a failure, never a failure into a pass; a second fault is then injected at each later operation of the faulted run (fault sequences of length 2, at most 40 pairs per scenario). Half of the scenarios are all-true so both directions of the iff are exercised. Non-trivial = >=2 leaves; distinct = distinct (verdict, file count, multiset of leaf paths and outcomes).",
		Components: map[string][]string{"real": {"pkg/test (RunTests, walk, RunExpr, ForeachLeaf, calcStats, Report)", "syntax (compiler, evaluator, local imports)", "rel"}, "stub": {"disk: aaverif/simfs", "report writer: bytes.Buffer"}},
		Assume:     []string{"the census is written down by the generator, not computed by evaluating anything", "dictionaries with several values under one key, and array index naming across offsets/holes, are not specified and not compared", "wall-time fields of the report are ignored"},
		Batches: []Batch{
			{Name: "layouts", Engine: "atest", Quick: 3000, Thorough: 300000, Timeout: 60 * time.Second},
			{Name: "layouts-sparse", Engine: "atest", Quick: 600, Thorough: 50000, Knobs: map[string]string{"sparse": "on"}, Timeout: 60 * time.Second},
			{Name: "faults", Engine: "atest", Quick: 300, Thorough: 20000, Knobs: map[string]string{"faults": "enum"}, Timeout: 120 * time.Second},
		},
	},
	{
		ID:         "C17",
		Level:      "exploration",
		Rule:       "History = tape-drawn script of 3-30 steps (Update with unique constant / function of $ / failing expression; Observe of $, projections that fail on some states, constants, always-failing; cancel incl. repeated and of ended observers; Hangup; release) issued by client goroutines to the real engine inside one synctest bubble; observer callbacks return an error or block until released as a seeded function of (observer, state serial). After every step the bubble is run to quiescence and a sequential reference model is advanced: every call answered unless a callback the harness itself blocks is in progress; failed update changes nothing; each observer's recorded deliveries equal the model's stream while it is live; after all releases one more update is acknowledged (bounded liveness in steps); update/first-read history checked with porcupine against a register. Non-trivial = >=2 updates and >=1 observer; distinct = distinct (sequence of call kinds, observer outcomes).",
		Components: map[string][]string{"real": {"engine (Start, Update, Observe, cancel, Hangup, Stop, watcher.update/close)", "syntax + rel (expressions)", "layer 2: cmd/arrai arraiServer.Update/Observe, rel.MarshalToJSON"}, "stub": {"clients and observer callbacks", "layer 2: gRPC transport below pb.Arrai_UpdateServer / pb.Arrai_ObserveServer (fake streams)"}},
		Assume:     []string{"at most one client call is pending on the engine at a time (Go's select among several ready channels is not steerable); overlap exists only behind a blocked callback", "deliveries to an observer the model has ended, and repeated closes, are counted, not flagged", "websocket frontend, TLS and real sockets are not covered"},
		Batches: []Batch{
			{Name: "engine-nofault", Engine: "engsim", Quick: 2000, Thorough: 200000, Knobs: map[string]string{"faults": "off"}, Timeout: 60 * time.Second},
			{Name: "engine-faults", Engine: "engsim", Quick: 3000, Thorough: 300000, Knobs: map[string]string{"faults": "on"}, Timeout: 60 * time.Second},
			{Name: "grpc-nofault", Engine: "grpcsim", Bin: "ov-cmd", Quick: 1000, Thorough: 50000, Knobs: map[string]string{"faults": "off"}, Timeout: 60 * time.Second},
			{Name: "grpc-faults", Engine: "grpcsim", Bin: "ov-cmd", Quick: 2000, Thorough: 100000, Knobs: map[string]string{"faults": "on"}, Timeout: 60 * time.Second},
			{Name: "websocket", Engine: "wssim", Bin: "ov-cmd", Quick: 1500, Thorough: 60000, Timeout: 60 * time.Second},
			{Name: "engine-stress", Engine: "engstress", Quick: 64, Thorough: 4000, Timeout: 120 * time.Second},
		},
	},
	{
		ID:         "C16",
		Level:      "exploration",
		Rule:       "Three seeded scenario families on a simulated disk. consistent: acyclic module layouts (with/without go.mod, nested go.mod, 2-8 files in nested directories, equal basenames with different contents, data files with implicit/explicit decoders, the same file under several spellings, diamonds; main named absolutely or relative to a real cwd inside/outside the tree): the result must equal the value of the files the documented rules resolve to (built by inlining, data files evaluated alone on a fresh context) and every content read in the operation log must lie below the importing script's module root. adversarial: one import string built from . .. ... whitespace, tabs, newlines, absolute-looking tails and secret paths: only confinement of content reads and absence of secret markers in value/error are judged. cyclic: self/2..5-cycles through several spellings plus acyclic controls, evaluated inside a synctest bubble: a quiescent bubble with the task unfinished is a hang verdict, no wall clock involved. Non-trivial = >=2 content reads (>=2 files for cyclic); distinct = distinct (family/class, reads, outcome).",
		Components: map[string][]string{"real": {"syntax.Compile/EvaluateExpr, compilePackage, importLocalFile, findRootFromModule, fileValue", "pkg/importcache, pkg/ctxrootcache, tools.FileExists"}, "stub": {"disk: aaverif/simfs", "process cwd: real empty directories below the worker's cwd, entered with os.Chdir"}},
		Assume:     []string{"the disk is not mutated during a run (the property does not promise snapshot isolation)", "Stat of <ancestor>/go.mod while walking up is the documented root search and is legal", "remote and Go-module imports are out of scope"},
		Batches: []Batch{
			{Name: "consistent", Engine: "imports", Quick: 2000, Thorough: 200000, Knobs: map[string]string{"mode": "consistent"}, Timeout: 60 * time.Second},
			{Name: "adversarial", Engine: "imports", Quick: 2500, Thorough: 300000, Knobs: map[string]string{"mode": "adversarial"}, Timeout: 60 * time.Second},
			{Name: "cyclic", Engine: "imports", Quick: 600, Thorough: 40000, Knobs: map[string]string{"mode": "cyclic"}, Timeout: 60 * time.Second},
		},
	},
	{
		ID:         "C11",
		Level:      "exploration",
		Rule:       "sched: 2-5 tasks (real goroutines in a synctest bubble) evaluate main files of one generated module tree over ONE shared import cache, root cache and simulated disk; every disk operation and (through the repo's guarded hook) every wake-up from the import cache's condition variable parks the task; after quiescence the seeded scheduler releases exactly one parked task, optionally failing its pending open/read/stat with EIO (once or persistently). Oracles: no deadlock (quiescent, nothing parked, tasks unfinished), every task's value equals its solo value, an error only if a file of its import closure received a fault, no panic. race: see batch rule in evidence. Non-trivial = >=6 scheduling steps; distinct = distinct (closure sizes, per-task operation counts, faulted paths).",
		Components: map[string][]string{"real": {"syntax.Compile/EvaluateExpr, syntax/import.go", "pkg/importcache (built with -tags verif: one seam after cond.Wait)", "pkg/ctxrootcache", "rel"}, "stub": {"disk: aaverif/simfs", "scheduler: aaverif/eng/sched decides which parked task runs next"}},
		Assume:     []string{"segments between two park points touch only mutex-protected cache state, so the state at quiescence does not depend on how the Go runtime orders overlapping segments (standing check: determinism self-test)", "a silently truncated read is never injected"},
		Batches: []Batch{
			{Name: "sched-nofault", Engine: "sched", Bin: "worker-hook", Quick: 1500, Thorough: 150000, Knobs: map[string]string{"faults": "off"}, Timeout: 60 * time.Second},
			{Name: "sched-faults", Engine: "sched", Bin: "worker-hook", Quick: 2500, Thorough: 250000, Knobs: map[string]string{"faults": "on"}, Timeout: 60 * time.Second},
			{Name: "race-firstuse", Engine: "race", Kind: "race", Race: true, Quick: 32, Thorough: 3000, Knobs: map[string]string{"mode": "firstuse"}, Timeout: 240 * time.Second},
			{Name: "race-shared", Engine: "race", Race: true, Quick: 400, Thorough: 40000, Knobs: map[string]string{"mode": "shared"}, Timeout: 240 * time.Second},
		},
	},
	{
		ID:         "C15",
		Level:      "exploration",
		Rule:       "Two simulated hosts and one artefact. Host A holds a generated module layout (with/without go.mod, nested go.mod, 2-10 files in nested directories, relative / module-rooted imports in several spellings, data files with implicit or explicit decoders, diamonds; main anywhere in the tree, named absolutely or relative to a real cwd). The script is evaluated from source on host A, bundled on host A by the real bundler, and the archive bytes alone are evaluated on host B, which holds decoy files at the same absolute paths and has its own cwd. Oracles: bundling succeeds when the source evaluates; values are equal (or both fail); host B's disk records no operation at all; no decoy content in the result; every file whose bytes were read during source evaluation is in the archive exactly once. Fault configuration: EIO at every disk operation position of the bundling run on host A -- a bundle reported as built must still evaluate to the source value. Non-trivial = >=2 files read; distinct = distinct (import kinds, module shape, files read, cwd choices).",
		Components: map[string][]string{"real": {"pkg/bundle.BundledScriptsTo", "syntax: SetupBundle, bundleLocalFile, addModuleSentinel, createConfig, EvaluateBundleCtx, WithBundleRun, GetMainBundleSource, import.go", "pkg/ctxfs/ctxzip, afero zipfs, archive/zip"}, "stub": {"both hosts' disks: aaverif/simfs", "process cwd: real empty directories"}},
		Assume:     []string{"sentinels are generated well-formed (module <name>\\n); remote and Go-module imports are out of scope", "error messages are not compared (they embed paths)"},
		Batches: []Batch{
			{Name: "layouts", Engine: "bundle", Quick: 2000, Thorough: 150000, Timeout: 60 * time.Second},
			{Name: "bundling-faults", Engine: "bundle", Quick: 150, Thorough: 5000, Knobs: map[string]string{"faults": "enum"}, Timeout: 120 * time.Second},
		},
	},
	{
		ID:         "C07",
		Level:      "exploration",
		Rule:       "The hash seeds (arr-ai/hash and frozen's private copy) are set from one integer per worker process through the aaseed seam. One run draws base values of 9-24 members (ints, floats incl. 1e16/-1e16, strings, two relations, two dicts, two tuples) and 4-10 independent expressions from a catalogue of the data fragment (printing, //str.repr, interpolation, orderby/order/rank with injective keys only, set->array/string/bytes conversions with colliding and distinct indices, sum/mean/max/min/median, nest, joins, +>, |, &, set patterns, cond, //rel.union, //seq.*, json/yaml encoders, //tuple, //dict, multi-valued calls). The same run is evaluated by K worker processes with K different hash seeds (K=4 quick, 8 thorough; different seed sets per worker group) and, per expression, the stdout bytes of arrai.OutputValue, fu.Repr and the value/error bit are compared; error texts are not. Each worker also evaluates every expression twice (same-seed stability). Batch corpus: the offline-evaluable .arrai sources shipped in the repository (examples, contrib, docs, stdlib; no //os, //net, //log, remote imports) evaluated whole under the same K seeds. Excluded by construction: //os, //net, //log, remote imports, NaN, orderby/order/rank with possibly tied keys (the documented exemption). Non-trivial = every run; distinct = distinct multiset of expression features; distinct_states counts distinct enumeration orders of a fixed 64-member probe set and 16-attribute probe tuple (proves the seeds permute).",
		Components: map[string][]string{"real": {"syntax (parser, compiler, evaluator, stdlib)", "rel (all values, printing)", "pkg/arrai.OutputValue, pkg/fu.Repr", "github.com/arr-ai/hash and frozen/internal/pkg/hash with seeds set by the harness before any value exists"}, "stub": {}},
		Assume:     []string{"Go built-in map iteration order and fastrand are not steerable; they are only sampled (every expression is evaluated twice per process)", "expressions are evaluated separately so that a disagreement is attributed to one construct"},
		Batches: []Batch{
			{Name: "xseed", Engine: "seeds", Kind: "xseed", XSeedK: [2]int{4, 8}, Quick: 1200, Thorough: 60000, Timeout: 120 * time.Second},
			{Name: "corpus", Engine: "seeds", Kind: "xseed", XSeedK: [2]int{4, 8}, Quick: 60, Thorough: 600, Knobs: map[string]string{"mode": "corpus"}, Timeout: 120 * time.Second},
		},
	},
}
