package main

import (
	"fmt"
	"os"
	"path/filepath"
	"strings"
	"sync"
	"time"
)

// raceEnv is the environment of one race-engine run, a pure function of the run seed.
func raceEnv(b *Batch, seed uint64) []string {
	dir := filepath.Join(binDir, "race")
	os.MkdirAll(dir, 0o755)
	env := append([]string{}, b.Env...)
	env = append(env, "GORACE=halt_on_error=0 log_path="+filepath.Join(dir, "log"))
	switch mix(seed, "frozen-concurrency", 0) % 4 {
	case 1:
		env = append(env, "FROZEN_CONCURRENCY=off")
	case 2:
		env = append(env, "FROZEN_CONCURRENCY=0")
	case 3:
		env = append(env, "FROZEN_CONCURRENCY=4")
	}
	return env
}

// runRace gives every run a process of its own (process-wide lazies can be
// first-used only once) in the -race build of the worker.
func runRace(p *Prop, b *Batch, n int, verifSeed uint64, a *agg, lanes int, deadline time.Time) {
	var wg sync.WaitGroup
	for lane := 0; lane < lanes; lane++ {
		wg.Add(1)
		go func(lane int) {
			defer wg.Done()
			hs := mix(verifSeed, "hash/"+b.Name, uint64(lane))%1000000007 + 1
			for k := lane; k < n; k += lanes {
				if time.Now().After(deadline) {
					return
				}
				seed := mix(verifSeed, p.ID+"/"+b.Name, uint64(k))
				w := newWorker(workerBin(b), hs, raceEnv(b, seed), timeoutOf(b))
				r := w.Do(Request{ID: int64(k), Engine: b.Engine, Seed: seed, Knobs: b.Knobs})
				w.stop()
				if r.Crashed {
					kind, frame := crashFrame(r.Stderr)
					r.V = &Violation{Oracle: "no-crash", Sig: p.ID + "/" + kind + "/" + frame, Msg: "worker process died during the run:\n" + tail(r.Stderr, 1500)}
					r.Engine = b.Engine
				}
				a.add(b, r)
			}
		}(lane)
	}
	wg.Wait()
}

func replayRace(p *Prop, path, engine string, knobs map[string]string, env []string, tp []uint64, seed uint64, sig string) int {
	b := &Batch{Engine: engine, Knobs: knobs, Env: env, Race: true}
	// a race needs the conflicting accesses to execute, not a particular interleaving, but which
	// accesses execute can depend on timing: allow a few attempts and say so
	for attempt := 1; attempt <= 5; attempt++ {
		w := newWorker(workerBin(b), 1, raceEnv(b, seed), 300*time.Second)
		r := w.Do(Request{ID: 1, Engine: engine, Seed: seed, Tape: tp, Replay: true, Knobs: knobs, Verbose: true})
		w.stop()
		if r.Infra != "" {
			fmt.Fprintln(os.Stderr, "INFRA:", r.Infra)
			return 2
		}
		if r.Crashed {
			kind, frame := crashFrame(r.Stderr)
			r.V = &Violation{Oracle: "no-crash", Sig: p.ID + "/" + kind + "/" + frame, Msg: tail(r.Stderr, 1500)}
		}
		if r.V != nil {
			fmt.Printf("VIOLATION property=%s replay=%s\n  signature: %s (recorded %s; attempt %d of 5)\n  %s\n", p.ID, path, r.V.Sig, sig, attempt, strings.ReplaceAll(r.V.Msg, "\n", "\n  "))
			return 1
		}
	}
	fmt.Printf("replay: no violation reproduced in 5 attempts (expected %s)\n", sig)
	return 0
}

func runXSeed(p *Prop, b *Batch, n int, verifSeed uint64, a *agg, lanes int, tier string, deadline time.Time) {
	fmt.Println("xseed: not built yet")
}

func replayXSeed(p *Prop, path, engine string, knobs map[string]string, tp []uint64, out map[string]any, sig string) int {
	return 2
}
