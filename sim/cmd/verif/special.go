package main

import (
	"encoding/json"
	"fmt"
	"os"
	"path/filepath"
	"strings"
	"sync"
	"time"
)

// raceEnv is the environment of one race-engine run, a pure function of the run seed.
func raceEnv(b *Batch, seed uint64) []string {
	dir := filepath.Join(binDir, "race")
	os.MkdirAll(dir, 0o755)
	env := append([]string{}, b.Env...)
	env = append(env, "GORACE=halt_on_error=0 history_size=7 log_path="+filepath.Join(dir, "log"))
	if b.Kind == "race" {
		env = append(env, "VERIF_FAKE_STDIN=1") // fresh process per run: //os.stdin can be first-read under contention
	}
	switch mix(seed, "frozen-concurrency", 0) % 4 {
	case 1:
		env = append(env, "FROZEN_CONCURRENCY=off")
	case 2:
		env = append(env, "FROZEN_CONCURRENCY=0")
	case 3:
		env = append(env, "FROZEN_CONCURRENCY=4")
	}
	return env
}

// runRace gives every run a process of its own (process-wide lazies can be
// first-used only once) in the -race build of the worker.
func runRace(p *Prop, b *Batch, n int, verifSeed uint64, a *agg, lanes int, deadline time.Time) {
	var wg sync.WaitGroup
	for lane := 0; lane < lanes; lane++ {
		wg.Add(1)
		go func(lane int) {
			defer wg.Done()
			hs := mix(verifSeed, "hash/"+b.Name, uint64(lane))%1000000007 + 1
			for k := lane; k < n; k += lanes {
				if time.Now().After(deadline) {
					return
				}
				seed := mix(verifSeed, p.ID+"/"+b.Name, uint64(k))
				w := newWorker(workerBin(b), hs, raceEnv(b, seed), timeoutOf(b))
				r := w.Do(Request{ID: int64(k), Engine: b.Engine, Seed: seed, Knobs: b.Knobs})
				w.stop()
				if r.Crashed {
					kind, frame := crashFrame(r.Stderr)
					r.V = &Violation{Oracle: "no-crash", Sig: p.ID + "/" + kind + "/" + frame, Msg: "worker process died during the run:\n" + headOf(r.Stderr, 1800)}
					r.Engine = b.Engine
				}
				a.add(b, r)
			}
		}(lane)
	}
	wg.Wait()
}

func replayRace(p *Prop, path, engine string, knobs map[string]string, env []string, tp []uint64, seed uint64, sig string) int {
	b := &Batch{Engine: engine, Knobs: knobs, Env: env, Race: true}
	// a race needs the conflicting accesses to execute, not a particular interleaving, but which
	// accesses execute can depend on timing: allow a few attempts and say so
	for attempt := 1; attempt <= 5; attempt++ {
		w := newWorker(workerBin(b), 1, raceEnv(b, seed), 300*time.Second)
		r := w.Do(Request{ID: 1, Engine: engine, Seed: seed, Tape: tp, Replay: true, Knobs: knobs, Verbose: true})
		w.stop()
		if r.Infra != "" {
			fmt.Fprintln(os.Stderr, "INFRA:", r.Infra)
			return 2
		}
		if r.Crashed {
			kind, frame := crashFrame(r.Stderr)
			r.V = &Violation{Oracle: "no-crash", Sig: p.ID + "/" + kind + "/" + frame, Msg: headOf(r.Stderr, 1800)}
		}
		if r.V != nil {
			fmt.Printf("VIOLATION property=%s replay=%s\n  signature: %s (recorded %s; attempt %d of 5)\n  %s\n", p.ID, path, r.V.Sig, sig, attempt, strings.ReplaceAll(r.V.Msg, "\n", "\n  "))
			return 1
		}
	}
	fmt.Printf("replay: no violation reproduced in 5 attempts (expected %s)\n", sig)
	return 0
}

type xexpr struct {
	Feat   string `json:"feat"`
	Src    string `json:"src"`
	Out    string `json:"out"`
	Repr   string `json:"repr"`
	Err    bool   `json:"err"`
	Stable bool   `json:"stable"`
	Text   string `json:"text"`
}

func xexprs(r *Result) (lets string, es []xexpr, order string) {
	if r.Out == nil {
		return
	}
	b, _ := json.Marshal(r.Out["exprs"])
	json.Unmarshal(b, &es)
	lets, _ = r.Out["lets"].(string)
	order, _ = r.Out["order"].(string)
	return
}

// xcompare compares one run's results under several hash seeds; it returns one violating Result per feature.
func xcompare(p *Prop, rs []*Result) []*Result {
	var out []*Result
	base := rs[0]
	lets, e0, _ := xexprs(base)
	seen := map[string]bool{}
	for i := range e0 {
		for _, r := range rs[1:] {
			_, ei, _ := xexprs(r)
			if i >= len(ei) {
				continue
			}
			a, b := e0[i], ei[i]
			var sig, why string
			switch {
			case !a.Stable || !b.Stable:
				sig, why = "C07/same-seed/"+a.Feat, "two evaluations in ONE process printed different bytes (Go map order or fastrand dependence; reproduces statistically)"
			case a.Err != b.Err:
				sig, why = "C07/value-vs-error/"+a.Feat, "one hash seed yields a value, the other an error"
			case !a.Err && (a.Out != b.Out || a.Repr != b.Repr):
				sig, why = "C07/"+a.Feat, "printed output differs between hash seeds"
			default:
				continue
			}
			if seen[sig] {
				continue
			}
			seen[sig] = true
			v := *base
			v.V = &Violation{Oracle: "same-output-under-every-hash-seed", Sig: sig,
				Msg: fmt.Sprintf("%s\n  expression: %s\n  hash seed %d prints: %s\n  hash seed %d prints: %s\n  bases: %s", why, a.Src, base.HashSeed, strings.TrimSpace(a.Text), r.HashSeed, strings.TrimSpace(b.Text), lets)}
			v.Out = map[string]any{"expr_index": i, "expr": a.Src, "feat": a.Feat, "hash_seed_a": base.HashSeed, "hash_seed_b": r.HashSeed, "out_a": a.Text, "out_b": b.Text}
			out = append(out, &v)
		}
	}
	return out
}

func runXSeed(p *Prop, b *Batch, n int, verifSeed uint64, a *agg, lanes int, tier string, deadline time.Time) {
	k := b.XSeedK[0]
	if tier == "thorough" {
		k = b.XSeedK[1]
	}
	if k < 2 {
		k = 2
	}
	groups := lanes / k
	if groups < 1 {
		groups = 1
	}
	var wg sync.WaitGroup
	for g := 0; g < groups; g++ {
		wg.Add(1)
		go func(g int) {
			defer wg.Done()
			ws := make([]*Worker, k)
			for j := range ws {
				hs := mix(verifSeed, "xseed/"+b.Name, uint64(g*k+j))%1000000007 + 1
				ws[j] = newWorker(workerBin(b), hs, b.Env, timeoutOf(b))
				defer ws[j].stop()
			}
			for run := g; run < n; run += groups {
				if time.Now().After(deadline) {
					return
				}
				seed := mix(verifSeed, p.ID+"/"+b.Name, uint64(run))
				rs := make([]*Result, k)
				var wg2 sync.WaitGroup
				for j := range ws {
					wg2.Add(1)
					go func(j int) {
						defer wg2.Done()
						rs[j] = ws[j].Do(Request{ID: int64(run), Engine: b.Engine, Seed: seed, Knobs: b.Knobs})
					}(j)
				}
				wg2.Wait()
				bad := false
				for _, r := range rs {
					if r.Crashed {
						kind, frame := crashFrame(r.Stderr)
						r.V = &Violation{Oracle: "no-crash", Sig: p.ID + "/" + kind + "/" + frame, Msg: "worker process died during the run:\n" + headOf(r.Stderr, 1800)}
						r.Engine = b.Engine
						a.add(b, r)
						bad = true
					} else if r.Infra != "" {
						a.add(b, r)
						bad = true
					}
				}
				if bad {
					continue
				}
				for _, r := range rs {
					_, _, order := xexprs(r)
					a.mu.Lock()
					a.states["order:"+order] = struct{}{}
					a.probes["evaluations-under-one-seed"]++
					a.mu.Unlock()
				}
				vs := xcompare(p, rs)
				first := *rs[0]
				first.Out = nil
				a.add(b, &first)
				for _, v := range vs {
					v.Nontrivial = false
					a.mu.Lock()
					v.Batch = b.Name
					a.vcount[v.V.Sig]++
					if _, ok := a.violations[v.V.Sig]; !ok {
						a.violations[v.V.Sig] = v
					}
					a.mu.Unlock()
				}
			}
		}(g)
	}
	wg.Wait()
}

func replayXSeed(p *Prop, path, engine string, knobs map[string]string, tp []uint64, out map[string]any, sig string) int {
	ha, _ := out["hash_seed_a"].(float64)
	hb, _ := out["hash_seed_b"].(float64)
	b := &Batch{Engine: engine, Knobs: knobs}
	var rs []*Result
	for _, hs := range []uint64{uint64(ha), uint64(hb)} {
		w := newWorker(workerBin(b), hs, nil, 300*time.Second)
		r := w.Do(Request{ID: 1, Engine: engine, Tape: tp, Replay: true, Knobs: knobs, Verbose: true})
		w.stop()
		if r.Infra != "" || r.Crashed {
			fmt.Fprintln(os.Stderr, "INFRA:", r.Infra, tail(r.Stderr, 500))
			return 2
		}
		rs = append(rs, r)
	}
	for _, v := range xcompare(p, rs) {
		if v.V.Sig == sig {
			fmt.Printf("VIOLATION property=%s replay=%s\n  signature: %s (same signature)\n  %s\n", p.ID, path, v.V.Sig, strings.ReplaceAll(v.V.Msg, "\n", "\n  "))
			return 1
		}
	}
	fmt.Printf("replay: no violation reproduced (expected %s)\n", sig)
	return 0
}
