package main

import (
	"fmt"
	"time"
)

func runXSeed(p *Prop, b *Batch, n int, verifSeed uint64, a *agg, lanes int, tier string, deadline time.Time) {
	fmt.Println("xseed: not built yet")
}
func runRace(p *Prop, b *Batch, n int, verifSeed uint64, a *agg, lanes int, deadline time.Time) {
	fmt.Println("race: not built yet")
}
func replayXSeed(p *Prop, path, engine string, knobs map[string]string, tp []uint64, out map[string]any, sig string) int {
	return 2
}
func replayRace(p *Prop, path, engine string, knobs map[string]string, env []string, tp []uint64, seed uint64, sig string) int {
	return 2
}
