package main

import (
	"fmt"
	"sync"
	"time"
)

// shrink minimises the tape of a violating run. Every candidate is executed in
// a worker process of the same hash seed (fresh on crash); a candidate is kept
// only if it yields the same violation signature. The final tape is executed
// twice more in fresh processes and must reproduce.
func shrink(p *Prop, b *Batch, r *Result, lanes int, budget time.Duration) *Result {
	if b.Kind == "xseed" || b.Kind == "race" {
		return r
	}
	deadline := time.Now().Add(budget)
	sig := r.V.Sig
	pool := make([]*Worker, lanes)
	for i := range pool {
		pool[i] = newWorker(workerBin(b), r.HashSeed, b.Env, timeoutOf(b))
	}
	defer func() {
		for _, w := range pool {
			w.stop()
		}
	}()
	attempts := 0
	try := func(w *Worker, tp []uint64) *Result {
		res := w.Do(Request{ID: 1, Engine: r.Engine, Seed: r.Seed, Tape: tp, Replay: true, Knobs: b.Knobs})
		if res.Crashed {
			kind, frame := crashFrame(res.Stderr)
			res.V = &Violation{Oracle: "no-crash", Sig: p.ID + "/" + kind + "/" + frame, Msg: "worker process died during the run:\n" + headOf(res.Stderr, 1800)}
			res.Tape = tp
			res.Engine = r.Engine
		}
		if res.Infra == "" && res.V != nil && res.V.Sig == sig {
			return res
		}
		return nil
	}
	// evaluate candidates in parallel, return the first (in order) that still fails
	firstOK := func(cands [][]uint64) *Result {
		for off := 0; off < len(cands); off += len(pool) {
			if time.Now().After(deadline) {
				return nil
			}
			end := off + len(pool)
			if end > len(cands) {
				end = len(cands)
			}
			out := make([]*Result, end-off)
			var wg sync.WaitGroup
			for i := off; i < end; i++ {
				wg.Add(1)
				go func(i int) {
					defer wg.Done()
					out[i-off] = try(pool[i-off], cands[i])
				}(i)
			}
			wg.Wait()
			attempts += end - off
			for _, o := range out {
				if o != nil {
					return o
				}
			}
		}
		return nil
	}
	cur := r
	// normalise first: replay of the recorded tape must fail the same way
	if o := firstOK([][]uint64{r.Tape}); o != nil {
		cur = o
	} else {
		fmt.Printf("verif: shrink: recorded tape of run seed %d did not reproduce %s in a fresh process; reporting unshrunk\n", r.Seed, sig)
		return r
	}
	improved := true
	for improved && time.Now().Before(deadline) {
		improved = false
		tp := cur.Tape
		n := len(tp)
		// 1. delete blocks
		for size := n / 2; size >= 1 && !improved; size /= 2 {
			var cands [][]uint64
			for i := 0; i+size <= n; i += size {
				c := append(append([]uint64{}, tp[:i]...), tp[i+size:]...)
				cands = append(cands, c)
			}
			if o := firstOK(cands); o != nil && less(o.Tape, cur.Tape) {
				cur, improved = o, true
			}
		}
		if improved {
			continue
		}
		// 2. zero blocks / entries
		for size := n / 2; size >= 1 && !improved; size /= 2 {
			var cands [][]uint64
			for i := 0; i+size <= n; i += size {
				c := append([]uint64{}, tp...)
				ch := false
				for j := i; j < i+size; j++ {
					if c[j] != 0 {
						c[j] = 0
						ch = true
					}
				}
				if ch {
					cands = append(cands, c)
				}
			}
			if o := firstOK(cands); o != nil && less(o.Tape, cur.Tape) {
				cur, improved = o, true
			}
		}
		if improved {
			continue
		}
		// 3. lower entries
		var cands [][]uint64
		for i := 0; i < n; i++ {
			if tp[i] > 1 {
				c := append([]uint64{}, tp...)
				c[i] = tp[i] / 2
				cands = append(cands, c)
			}
			if tp[i] > 0 {
				c := append([]uint64{}, tp...)
				c[i] = tp[i] - 1
				cands = append(cands, c)
			}
		}
		if o := firstOK(cands); o != nil && less(o.Tape, cur.Tape) {
			cur, improved = o, true
		}
	}
	// final: twice more in fresh processes, verbose
	var finals []*Result
	for i := 0; i < 2; i++ {
		w := newWorker(workerBin(b), r.HashSeed, b.Env, timeoutOf(b))
		res := w.Do(Request{ID: 1, Engine: r.Engine, Seed: r.Seed, Tape: cur.Tape, Replay: true, Knobs: b.Knobs, Verbose: true})
		w.stop()
		if res.Crashed {
			kind, frame := crashFrame(res.Stderr)
			res.V = &Violation{Oracle: "no-crash", Sig: p.ID + "/" + kind + "/" + frame, Msg: "worker process died during the run:\n" + headOf(res.Stderr, 1800)}
			res.Tape = cur.Tape
			res.Engine = r.Engine
		}
		finals = append(finals, res)
	}
	ok := true
	for _, f := range finals {
		if f.Infra != "" || f.V == nil || f.V.Sig != sig {
			ok = false
		}
	}
	if ok && finals[0].Trace != finals[1].Trace && !finals[0].Crashed {
		fmt.Printf("verif: shrink: minimised tape reproduces %s but the two event logs differ\n", sig)
	}
	if !ok {
		fmt.Printf("verif: shrink: minimised tape did not reproduce %s twice; reporting the unshrunk run\n", sig)
		return r
	}
	fmt.Printf("verif: shrink: %s: tape %d -> %d entries in %d attempts\n", sig, len(r.Tape), len(cur.Tape), attempts)
	out := finals[0]
	out.Seed = r.Seed
	out.HashSeed = r.HashSeed
	return out
}

// less orders tapes: shorter first, then lexicographically smaller.
func less(a, b []uint64) bool {
	if len(a) != len(b) {
		return len(a) < len(b)
	}
	for i := range a {
		if a[i] != b[i] {
			return a[i] < b[i]
		}
	}
	return false
}
