// Command verif is the orchestrator: it spawns workers, deals runs to them,
// compares, shrinks, writes evidence and replay files. It never links arrai.
package main

import (
	"encoding/json"
	"flag"
	"fmt"
	"os"
	"path/filepath"
	"runtime"
	"sort"
	"strconv"
	"strings"
	"sync"
	"time"
)

var (
	onlyBatch string
	verifDir  string // /verif
	workDir   string // scratch cwd for workers
	binDir    string
)

// Batch is one homogeneous set of runs of one engine.
type Batch struct {
	Name     string
	Engine   string
	Kind     string // "pool" (default), "xseed", "race"
	Quick    int
	Thorough int
	Knobs    map[string]string
	Env      []string
	Race     bool
	Bin      string // worker binary (default "worker")
	Timeout  time.Duration
	// XSeedK is the number of different hash seeds each program runs under (Kind xseed).
	XSeedK [2]int
}

// Prop is the check configuration of one property.
type Prop struct {
	ID         string
	Level      string
	Rule       string
	Components map[string][]string
	Assume     []string
	Batches    []Batch
}

func mix(seed uint64, label string, k uint64) uint64 {
	h := seed ^ 0x51afd7ed558ccd
	for _, c := range []byte(label) {
		h = (h ^ uint64(c)) * 0x100000001b3
	}
	h ^= k * 0x9e3779b97f4a7c15
	h = (h ^ (h >> 30)) * 0xbf58476d1ce4e5b9
	h = (h ^ (h >> 27)) * 0x94d049bb133111eb
	return h ^ (h >> 31)
}

type finding struct {
	Property  string `json:"property"`
	Signature string `json:"signature"`
	Status    string `json:"status"`
	Commit    string `json:"commit,omitempty"`
	What      string `json:"what"`
}

func loadFindings() []finding {
	b, err := os.ReadFile(filepath.Join(verifDir, "known_findings.json"))
	if err != nil {
		return nil
	}
	var f struct {
		Findings []finding `json:"findings"`
	}
	if err := json.Unmarshal(b, &f); err != nil {
		fmt.Fprintln(os.Stderr, "known_findings.json:", err)
		os.Exit(2)
	}
	return f.Findings
}

func sigMatch(pat, sig string) bool {
	if pat == sig {
		return true
	}
	ok, _ := filepath.Match(pat, sig)
	return ok
}

func knownFor(fs []finding, prop, sig string) *finding {
	for i := range fs {
		if fs[i].Property == prop && fs[i].Status == "known" && sigMatch(fs[i].Signature, sig) {
			return &fs[i]
		}
	}
	return nil
}

type agg struct {
	mu          sync.Mutex
	runs        int
	steps       int
	nontrivial  int
	faults      map[string]int
	probes      map[string]int
	traces      map[string]struct{}
	scheds      map[string]struct{}
	states      map[string]struct{}
	ntStates    map[string]struct{}
	samples     []any
	firstSeed   uint64
	lastSeed    uint64
	violations  map[string]*Result // first per signature
	vcount      map[string]int
	infra       []string
	engines     map[string]int
	selfchecked int
	selfdiverge []string
}

func newAgg() *agg {
	return &agg{faults: map[string]int{}, probes: map[string]int{}, traces: map[string]struct{}{}, scheds: map[string]struct{}{},
		states: map[string]struct{}{}, ntStates: map[string]struct{}{}, violations: map[string]*Result{}, vcount: map[string]int{}, engines: map[string]int{}}
}

func (a *agg) add(b *Batch, r *Result) {
	a.mu.Lock()
	defer a.mu.Unlock()
	if r.Infra != "" {
		a.infra = append(a.infra, fmt.Sprintf("%s seed %d: %s", b.Name, r.Seed, r.Infra))
		return
	}
	a.runs++
	a.engines[b.Engine]++
	if a.runs == 1 {
		a.firstSeed = r.Seed
	}
	a.lastSeed = r.Seed
	a.steps += r.Steps
	for k, v := range r.Faults {
		a.faults[k] += v
	}
	for k, v := range r.Probes {
		a.probes[k] += v
	}
	a.traces[r.Trace] = struct{}{}
	if r.Sched != "" {
		a.scheds[r.Sched] = struct{}{}
	}
	if r.State != "" {
		a.states[r.State] = struct{}{}
	}
	if r.Nontrivial {
		a.nontrivial++
		key := r.State
		if key == "" {
			key = r.Trace
		}
		a.ntStates[b.Name+"/"+key] = struct{}{}
	}
	if r.Sample != nil && len(a.samples) < 6 {
		a.samples = append(a.samples, map[string]any{"batch": b.Name, "run_seed": r.Seed, "case": r.Sample})
	}
	r.Batch = b.Name
	if r.V != nil {
		a.vcount[r.V.Sig]++
		if _, ok := a.violations[r.V.Sig]; !ok {
			rr := *r
			a.violations[r.V.Sig] = &rr
		}
	}
}

type laneSpec struct {
	hashSeed uint64
}

func workerBin(b *Batch) string {
	if b.Bin != "" {
		return filepath.Join(binDir, b.Bin)
	}
	if b.Race {
		return filepath.Join(binDir, "worker-race")
	}
	return filepath.Join(binDir, "worker")
}

func timeoutOf(b *Batch) time.Duration {
	if s := os.Getenv("VERIF_WATCHDOG_S"); s != "" {
		if v, err := strconv.Atoi(s); err == nil {
			return time.Duration(v) * time.Second
		}
	}
	if b.Timeout > 0 {
		return b.Timeout
	}
	return 180 * time.Second
}

// runPool deals run indices 0..n-1 to P lanes; lane i owns indices i, i+P, ...
// and a hash seed of its own, so a run's identity is (run seed, hash seed).
func runPool(p *Prop, b *Batch, n int, verifSeed uint64, a *agg, lanes int, deadline time.Time) {
	var wg sync.WaitGroup
	for lane := 0; lane < lanes; lane++ {
		wg.Add(1)
		go func(lane int) {
			defer wg.Done()
			hs := mix(verifSeed, "hash/"+b.Name, uint64(lane))%1000000007 + 1
			env := b.Env
			if b.Race {
				env = raceEnv(b, mix(verifSeed, "race-lane/"+b.Name, uint64(lane)))
			}
			w := newWorker(workerBin(b), hs, env, timeoutOf(b))
			defer w.stop()
			for k := lane; k < n; k += lanes {
				if time.Now().After(deadline) {
					return
				}
				seed := mix(verifSeed, p.ID+"/"+b.Name, uint64(k))
				r := w.Do(Request{ID: int64(k), Engine: b.Engine, Seed: seed, Knobs: b.Knobs})
				if r.Crashed {
					kind, frame := crashFrame(r.Stderr)
					r.V = &Violation{Oracle: "no-crash", Sig: p.ID + "/" + kind + "/" + frame, Msg: "worker process died during the run:\n" + headOf(r.Stderr, 1800)}
					r.Engine = b.Engine
				}
				a.add(b, r)
			}
		}(lane)
	}
	wg.Wait()
}

func nOf(b *Batch, tier string) int {
	if tier == "thorough" {
		return b.Thorough
	}
	return b.Quick
}

func main() {
	prop := flag.String("prop", "", "property id")
	tier := flag.String("tier", "quick", "quick|thorough")
	seedFlag := flag.Uint64("seed", 0, "VERIF_SEED (0 = default for the tier)")
	replay := flag.String("replay", "", "replay file")
	selftest := flag.Bool("selftest", false, "determinism self-test")
	scale := flag.Float64("scale", 1, "scale run counts")
	lanesFlag := flag.Int("lanes", 0, "worker processes")
	maxMinutes := flag.Float64("max-minutes", 0, "stop dealing new runs after this many minutes")
	flag.StringVar(&onlyBatch, "batch", "", "debugging: run only this batch")
	flag.StringVar(&verifDir, "verif", "/verif", "verif dir")
	flag.StringVar(&binDir, "bin", "/verif/.build", "binaries dir")
	flag.Parse()

	workDir = filepath.Join(binDir, "cwd")
	os.MkdirAll(workDir, 0o755)
	lanes := *lanesFlag
	if lanes == 0 {
		lanes = runtime.NumCPU()
		if lanes > 16 {
			lanes = 16
		}
	}
	if *replay != "" {
		os.Exit(doReplay(*replay))
	}
	p := findProp(*prop)
	if p == nil {
		fmt.Fprintln(os.Stderr, "unknown property", *prop)
		os.Exit(2)
	}
	verifSeed := *seedFlag
	if verifSeed == 0 {
		if s := os.Getenv("VERIF_SEED"); s != "" {
			v, err := strconv.ParseUint(s, 10, 64)
			if err != nil {
				// accept negative / large ints by hashing the text
				v = mix(1, s, 0)
			}
			verifSeed = v
		}
	}
	if verifSeed == 0 {
		verifSeed = 20260922
		if *tier == "thorough" {
			verifSeed = 20260923
		}
	}
	if *selftest {
		os.Exit(doSelftest(p, verifSeed, lanes))
	}
	os.Exit(doCheck(p, *tier, verifSeed, lanes, *scale, *maxMinutes))
}

func doCheck(p *Prop, tier string, verifSeed uint64, lanes int, scale, maxMinutes float64) int {
	start := time.Now()
	deadline := start.Add(1000 * time.Hour)
	if maxMinutes > 0 {
		deadline = start.Add(time.Duration(maxMinutes * float64(time.Minute)))
	}
	fmt.Printf("verif: property=%s tier=%s VERIF_SEED=%d lanes=%d\n", p.ID, tier, verifSeed, lanes)
	a := newAgg()
	perBatch := map[string]int{}
	// a time budget (-max-minutes) is shared between the batches: every batch gets an equal part, and what a
	// batch leaves unused goes to the ones after it
	active := 0
	for i := range p.Batches {
		b := &p.Batches[i]
		if n := int(float64(nOf(b, tier)) * scale); n > 0 && (onlyBatch == "" || onlyBatch == b.Name) {
			active++
		}
	}
	seen := 0
	for i := range p.Batches {
		b := &p.Batches[i]
		n := int(float64(nOf(b, tier)) * scale)
		if n <= 0 || (onlyBatch != "" && onlyBatch != b.Name) {
			continue
		}
		seen++
		if maxMinutes > 0 {
			remaining := time.Until(start.Add(time.Duration(maxMinutes * float64(time.Minute))))
			share := remaining / time.Duration(active-seen+1)
			deadline = time.Now().Add(share)
		}
		t0 := time.Now()
		before := a.runs
		switch b.Kind {
		case "", "pool":
			runPool(p, b, n, verifSeed, a, lanes, deadline)
		case "xseed":
			runXSeed(p, b, n, verifSeed, a, lanes, tier, deadline)
		case "race":
			runRace(p, b, n, verifSeed, a, lanes, deadline)
		}
		perBatch[b.Name] = a.runs - before
		fmt.Printf("verif: batch %s engine=%s runs=%d in %.1fs\n", b.Name, b.Engine, a.runs-before, time.Since(t0).Seconds())
	}
	// determinism self-check slice: re-run a few runs of each pool batch in fresh processes
	for i := range p.Batches {
		b := &p.Batches[i]
		// not for -race batches: there the goroutines are deliberately unscheduled
		if (b.Kind == "" || b.Kind == "pool") && !b.Race && nOf(b, tier) > 0 && (onlyBatch == "" || onlyBatch == b.Name) {
			selfSlice(p, b, verifSeed, a, lanes, 8)
		}
	}
	// A run that never answers is an evaluator hang (C10's defect class) or an overloaded box; a handful
	// are tolerated and reported in evidence, more than that means the check itself cannot be trusted.
	if n := len(a.infra); n > 0 && n <= 3+a.runs/200 && allWatchdog(a.infra) {
		fmt.Printf("verif: %d runs skipped by the watchdog (no answer; counted in evidence as watchdog_skipped)\n", n)
		for _, s := range a.infra {
			fmt.Println("verif:   skipped:", strings.SplitN(s, "\n", 2)[0])
		}
		a.probes["watchdog_skipped"] = n
		a.infra = nil
	}
	if len(a.infra) > 0 {
		for i, s := range a.infra {
			if i < 5 {
				fmt.Fprintln(os.Stderr, "INFRA:", s)
			}
		}
		fmt.Fprintf(os.Stderr, "verif: %d infrastructure failures; exiting 2\n", len(a.infra))
		writeEvidence(p, tier, verifSeed, a, start, 0, nil, perBatch)
		return 2
	}
	if len(a.selfdiverge) > 0 {
		for _, s := range a.selfdiverge {
			fmt.Fprintln(os.Stderr, "NONDETERMINISM:", s)
		}
		// On the unchanged tree the engines replay exactly (./check selftest). A divergence here means the
		// code under test has grown concurrency or another source of nondeterminism the simulator does not own.
		// Violations found are still reported (their replay may then be statistical); without any, the run is
		// not trusted.
		if len(a.violations) == 0 {
			fmt.Fprintln(os.Stderr, "verif: simulator not deterministic and nothing found; exiting 2")
			return 2
		}
		fmt.Fprintln(os.Stderr, "verif: simulator not deterministic on this tree; violations below may replay only statistically")
	}
	// violations
	known := loadFindings()
	sigs := make([]string, 0, len(a.violations))
	for s := range a.violations {
		sigs = append(sigs, s)
	}
	sort.Strings(sigs)
	exit := 0
	var knownSeen []string
	shrunk := 0
	reported := map[string]bool{}
	for _, sig := range sigs {
		r := a.violations[sig]
		b := batchOf(p, r.Batch, r.Engine)
		final := r
		if shrunk < 6 {
			shrunk++
			budget := 90 * time.Second
			if tier == "thorough" {
				budget = 240 * time.Second
			}
			final = shrink(p, b, r, lanes, budget)
		}
		fsig := final.V.Sig
		if reported[fsig] {
			continue
		}
		reported[fsig] = true
		if kf := knownFor(known, p.ID, fsig); kf != nil {
			line := fmt.Sprintf("KNOWN-FINDING: property=%s %s (%s; seen %d times this run, e.g. run seed %d)", p.ID, fsig, kf.What, a.vcount[sig], r.Seed)
			fmt.Println(line)
			knownSeen = append(knownSeen, fsig)
			continue
		}
		path := writeReplay(p, b, final, verifSeed, tier)
		fmt.Printf("VIOLATION property=%s replay=%s\n", p.ID, path)
		fmt.Printf("  signature: %s\n  oracle: %s\n  %s\n", fsig, final.V.Oracle, strings.ReplaceAll(final.V.Msg, "\n", "\n  "))
		exit = 1
	}
	nv := 0
	if exit == 1 {
		for _, sig := range sigs {
			if knownFor(known, p.ID, sig) == nil {
				nv += a.vcount[sig]
			}
		}
	}
	writeEvidence(p, tier, verifSeed, a, start, nv, knownSeen, perBatch)
	fmt.Printf("verif: %s %s: %d runs, %d steps, %d distinct traces, %d violating signatures, exit %d (%.1fs)\n",
		p.ID, tier, a.runs, a.steps, len(a.traces), len(sigs), exit, time.Since(start).Seconds())
	return exit
}

func allWatchdog(infra []string) bool {
	for _, s := range infra {
		if !strings.Contains(s, "watchdog: no answer") {
			return false
		}
	}
	return true
}

func batchOf(p *Prop, name, engine string) *Batch {
	for i := range p.Batches {
		if p.Batches[i].Name == name {
			return &p.Batches[i]
		}
	}
	for i := range p.Batches {
		if p.Batches[i].Engine == engine {
			return &p.Batches[i]
		}
	}
	return &p.Batches[0]
}

// selfSlice re-executes the first k runs of a batch in fresh processes and
// compares event-log hashes with a second fresh execution.
func selfSlice(p *Prop, b *Batch, verifSeed uint64, a *agg, lanes, k int) {
	type pair struct{ x, y *Result }
	res := make([]pair, k)
	var wg sync.WaitGroup
	for i := 0; i < k; i++ {
		wg.Add(1)
		go func(i int) {
			defer wg.Done()
			lane := i % lanes
			hs := mix(verifSeed, "hash/"+b.Name, uint64(lane))%1000000007 + 1
			seed := mix(verifSeed, p.ID+"/"+b.Name, uint64(i))
			for j := 0; j < 2; j++ {
				w := newWorker(workerBin(b), hs, b.Env, timeoutOf(b))
				r := w.Do(Request{ID: int64(i), Engine: b.Engine, Seed: seed, Knobs: b.Knobs})
				w.stop()
				if j == 0 {
					res[i].x = r
				} else {
					res[i].y = r
				}
			}
		}(i)
	}
	wg.Wait()
	for i := range res {
		x, y := res[i].x, res[i].y
		if x.Infra != "" || y.Infra != "" || x.Crashed || y.Crashed {
			continue
		}
		a.selfchecked++
		if x.Trace != y.Trace {
			a.selfdiverge = append(a.selfdiverge, fmt.Sprintf("%s/%s run seed %d: event log hashes differ between two fresh processes (%s vs %s)", p.ID, b.Name, x.Seed, x.Trace, y.Trace))
		}
	}
}

func writeReplay(p *Prop, b *Batch, r *Result, verifSeed uint64, tier string) string {
	dir := filepath.Join(verifDir, "replays")
	os.MkdirAll(dir, 0o755)
	name := fmt.Sprintf("%s-%s-%d.json", p.ID, sanitize(r.V.Sig), r.Seed)
	path := filepath.Join(dir, name)
	doc := map[string]any{
		"property": p.ID, "engine": r.Engine, "batch": b.Name, "kind": b.Kind, "tier": tier, "verif_seed": verifSeed, "run_seed": r.Seed,
		"hash_seed": r.HashSeed, "knobs": b.Knobs, "env": b.Env, "race": b.Race, "bin": b.Bin, "tape": r.Tape, "signature": r.V.Sig, "oracle": r.V.Oracle,
		"message": r.V.Msg, "trace": r.Trace, "log": r.Log, "crashed": r.Crashed, "out": r.Out,
	}
	bs, _ := json.MarshalIndent(doc, "", " ")
	os.WriteFile(path, bs, 0o644)
	return path
}

func sanitize(s string) string {
	var sb strings.Builder
	for _, c := range s {
		switch {
		case c >= 'a' && c <= 'z', c >= 'A' && c <= 'Z', c >= '0' && c <= '9', c == '-', c == '_', c == '.':
			sb.WriteRune(c)
		default:
			sb.WriteByte('_')
		}
	}
	out := sb.String()
	if len(out) > 80 {
		out = out[:80]
	}
	return out
}

func doReplay(path string) int {
	bs, err := os.ReadFile(path)
	if err != nil {
		fmt.Fprintln(os.Stderr, err)
		return 2
	}
	var doc struct {
		Property  string            `json:"property"`
		Engine    string            `json:"engine"`
		Batch     string            `json:"batch"`
		Kind      string            `json:"kind"`
		RunSeed   uint64            `json:"run_seed"`
		HashSeed  uint64            `json:"hash_seed"`
		Knobs     map[string]string `json:"knobs"`
		Env       []string          `json:"env"`
		Race      bool              `json:"race"`
		Bin       string            `json:"bin"`
		Tape      []uint64          `json:"tape"`
		Signature string            `json:"signature"`
		Trace     string            `json:"trace"`
		Out       map[string]any    `json:"out"`
	}
	if err := json.Unmarshal(bs, &doc); err != nil {
		fmt.Fprintln(os.Stderr, err)
		return 2
	}
	p := findProp(doc.Property)
	if p == nil {
		fmt.Fprintln(os.Stderr, "unknown property in replay file")
		return 2
	}
	if doc.Kind == "xseed" {
		return replayXSeed(p, path, doc.Engine, doc.Knobs, doc.Tape, doc.Out, doc.Signature)
	}
	if doc.Kind == "race" {
		return replayRace(p, path, doc.Engine, doc.Knobs, doc.Env, doc.Tape, doc.RunSeed, doc.Signature)
	}
	b := &Batch{Name: doc.Batch, Engine: doc.Engine, Knobs: doc.Knobs, Env: doc.Env, Race: doc.Race, Bin: doc.Bin}
	w := newWorker(workerBin(b), doc.HashSeed, doc.Env, 300*time.Second)
	r := w.Do(Request{ID: 1, Engine: doc.Engine, Seed: doc.RunSeed, Tape: doc.Tape, Replay: true, Knobs: doc.Knobs, Verbose: true})
	w.stop()
	if r.Infra != "" {
		fmt.Fprintln(os.Stderr, "INFRA:", r.Infra)
		return 2
	}
	if r.Crashed {
		kind, frame := crashFrame(r.Stderr)
		r.V = &Violation{Oracle: "no-crash", Sig: p.ID + "/" + kind + "/" + frame, Msg: headOf(r.Stderr, 1800)}
	}
	for _, l := range r.Log {
		fmt.Println("  |", l)
	}
	if r.V == nil {
		fmt.Printf("replay: no violation reproduced (expected %s)\n", doc.Signature)
		return 0
	}
	same := "same signature"
	if r.V.Sig != doc.Signature {
		same = "DIFFERENT signature, recorded " + doc.Signature
	}
	if doc.Trace != "" && r.Trace != "" {
		if r.Trace == doc.Trace {
			same += ", identical event log"
		} else {
			same += ", event log differs"
		}
	}
	fmt.Printf("VIOLATION property=%s replay=%s\n  signature: %s (%s)\n  %s\n", p.ID, path, r.V.Sig, same, strings.ReplaceAll(r.V.Msg, "\n", "\n  "))
	return 1
}

func doSelftest(p *Prop, verifSeed uint64, lanes int) int {
	bad := 0
	total := 0
	for i := range p.Batches {
		b := &p.Batches[i]
		if (b.Kind != "" && b.Kind != "pool") || b.Race {
			continue
		}
		for _, procs := range []string{"1", "4", "16"} {
			bb := *b
			bb.Env = append(append([]string{}, b.Env...), "GOMAXPROCS="+procs)
			a := newAgg()
			selfSlice(p, &bb, mix(verifSeed, "selftest"+procs, 0), a, lanes, 32)
			total += a.selfchecked
			bad += len(a.selfdiverge)
			for _, s := range a.selfdiverge {
				fmt.Println("NONDETERMINISM:", s, "GOMAXPROCS="+procs)
			}
		}
		// same seeds across GOMAXPROCS values must also agree
	}
	fmt.Printf("selftest %s: %d run pairs compared, %d divergences\n", p.ID, total, bad)
	if bad > 0 {
		return 2
	}
	return 0
}
