package main

import (
	"bufio"
	"bytes"
	"encoding/json"
	"fmt"
	"io"
	"os"
	"os/exec"
	"strconv"
	"strings"
	"sync"
	"time"
)

// Result mirrors aaverif/run.Result (the orchestrator never links arrai).
type Result struct {
	ID         int64          `json:"id"`
	Engine     string         `json:"engine"`
	Seed       uint64         `json:"seed"`
	HashSeed   uint64         `json:"hash_seed"`
	V          *Violation     `json:"v,omitempty"`
	Tape       []uint64       `json:"tape,omitempty"`
	Steps      int            `json:"steps"`
	Faults     map[string]int `json:"faults,omitempty"`
	Probes     map[string]int `json:"probes,omitempty"`
	Trace      string         `json:"trace"`
	Sched      string         `json:"sched,omitempty"`
	State      string         `json:"state,omitempty"`
	Nontrivial bool           `json:"nt"`
	Sample     any            `json:"sample,omitempty"`
	Log        []string       `json:"log,omitempty"`
	Out        map[string]any `json:"out,omitempty"`

	Batch   string `json:"batch,omitempty"`
	Crashed bool   `json:"crashed,omitempty"`
	Stderr  string `json:"stderr,omitempty"`
	Infra   string `json:"infra,omitempty"`
}

type Violation struct {
	Oracle string `json:"oracle"`
	Sig    string `json:"sig"`
	Msg    string `json:"msg"`
}

type Request struct {
	ID      int64             `json:"id"`
	Engine  string            `json:"engine"`
	Seed    uint64            `json:"seed"`
	Tape    []uint64          `json:"tape,omitempty"`
	Replay  bool              `json:"replay"`
	Knobs   map[string]string `json:"knobs,omitempty"`
	Verbose bool              `json:"verbose,omitempty"`
}

// Worker is one worker OS process.
type Worker struct {
	bin      string
	env      []string
	cmd      *exec.Cmd
	stdin    io.WriteCloser
	out      *bufio.Reader
	stderr   *tailBuf
	hashSeed uint64
	timeout  time.Duration
	mu       sync.Mutex
}

type tailBuf struct {
	mu   sync.Mutex
	head []byte // the beginning of the stream: a Go crash dump names its cause first
	buf  []byte
}

func (t *tailBuf) Write(p []byte) (int, error) {
	t.mu.Lock()
	defer t.mu.Unlock()
	if len(t.head) < 12000 {
		n := 12000 - len(t.head)
		if n > len(p) {
			n = len(p)
		}
		t.head = append(t.head, p[:n]...)
	}
	t.buf = append(t.buf, p...)
	if len(t.buf) > 1<<17 {
		t.buf = t.buf[len(t.buf)-(1<<16):]
	}
	return len(p), nil
}

func (t *tailBuf) String() string {
	t.mu.Lock()
	defer t.mu.Unlock()
	if len(t.buf) > len(t.head) && len(t.head) >= 12000 {
		return string(t.head) + "\n[...]\n" + string(t.buf[len(t.buf)-min(len(t.buf)-len(t.head), 4000):])
	}
	return string(t.buf)
}

func newWorker(bin string, hashSeed uint64, extraEnv []string, timeout time.Duration) *Worker {
	return &Worker{bin: bin, hashSeed: hashSeed, env: extraEnv, timeout: timeout}
}

func (w *Worker) start() error {
	cmd := exec.Command(w.bin, "-test.run", "^TestWorker$", "-test.timeout", "0")
	cmd.Env = append(os.Environ(), "VERIF_WORKER=1", "VERIF_HASH_SEED="+strconv.FormatUint(w.hashSeed, 10))
	cmd.Env = append(cmd.Env, w.env...)
	cmd.Dir = workDir
	stdin, err := cmd.StdinPipe()
	if err != nil {
		return err
	}
	stdout, err := cmd.StdoutPipe()
	if err != nil {
		return err
	}
	w.stderr = &tailBuf{}
	cmd.Stderr = w.stderr
	if err := cmd.Start(); err != nil {
		return err
	}
	w.cmd, w.stdin, w.out = cmd, stdin, bufio.NewReaderSize(stdout, 1<<20)
	return nil
}

func (w *Worker) stop() {
	if w.cmd == nil {
		return
	}
	w.stdin.Close()
	done := make(chan struct{})
	go func() { w.cmd.Wait(); close(done) }()
	select {
	case <-done:
	case <-time.After(3 * time.Second):
		w.cmd.Process.Kill()
		<-done
	}
	w.cmd = nil
}

func (w *Worker) kill() {
	if w.cmd != nil {
		w.cmd.Process.Kill()
		w.cmd.Wait()
		w.cmd = nil
	}
}

// Do sends one request. A worker that dies before answering yields a Result
// with Crashed set; a worker that does not answer within the watchdog yields
// Infra (never a violation).
func (w *Worker) Do(rq Request) *Result {
	w.mu.Lock()
	defer w.mu.Unlock()
	if w.cmd == nil {
		if err := w.start(); err != nil {
			return &Result{ID: rq.ID, Seed: rq.Seed, Infra: "cannot start worker: " + err.Error()}
		}
	}
	b, _ := json.Marshal(rq)
	b = append(b, '\n')
	if _, err := w.stdin.Write(b); err != nil {
		st := w.stderr.String()
		w.kill()
		return &Result{ID: rq.ID, Seed: rq.Seed, Infra: "worker stdin closed: " + err.Error() + "\n" + tail(st, 2000)}
	}
	type lineOrErr struct {
		line []byte
		err  error
	}
	begun := false
	timer := time.NewTimer(w.timeout)
	defer timer.Stop()
	for {
		ch := make(chan lineOrErr, 1)
		go func() {
			l, err := w.out.ReadBytes('\n')
			ch <- lineOrErr{l, err}
		}()
		select {
		case <-timer.C:
			st := w.stderr.String()
			w.kill()
			<-ch
			return &Result{ID: rq.ID, Engine: rq.Engine, Seed: rq.Seed, HashSeed: w.hashSeed, Infra: fmt.Sprintf("watchdog: no answer in %v (begun=%v)\n%s", w.timeout, begun, tail(st, 3000))}
		case le := <-ch:
			if bytes.HasPrefix(le.line, []byte("\x01VP ")) {
				f := strings.SplitN(strings.TrimSpace(string(le.line[4:])), " ", 3)
				switch f[0] {
				case "BEGIN":
					begun = true
				case "END":
					var res Result
					if len(f) < 3 {
						return &Result{ID: rq.ID, Seed: rq.Seed, Infra: "short END line"}
					}
					if err := json.Unmarshal([]byte(f[2]), &res); err != nil {
						return &Result{ID: rq.ID, Seed: rq.Seed, Infra: "bad END json: " + err.Error()}
					}
					return &res
				case "ERROR":
					return &Result{ID: rq.ID, Seed: rq.Seed, Infra: strings.Join(f[1:], " ")}
				}
			}
			if le.err != nil {
				// process died
				w.cmd.Wait()
				st := w.stderr.String()
				w.cmd = nil
				if !begun {
					return &Result{ID: rq.ID, Engine: rq.Engine, Seed: rq.Seed, HashSeed: w.hashSeed, Infra: "worker died before BEGIN:\n" + tail(st, 3000)}
				}
				return &Result{ID: rq.ID, Engine: rq.Engine, Seed: rq.Seed, HashSeed: w.hashSeed, Crashed: true, Stderr: tail(st, 20000)}
			}
		}
	}
}

func tail(s string, n int) string {
	if len(s) > n {
		return s[len(s)-n:]
	}
	return s
}

// crashFrame finds the innermost arr-ai/arrai frame in a Go crash dump.
func crashFrame(stderr string) (kind, frame string) {
	kind = "crash"
	switch {
	case strings.Contains(stderr, "stack overflow") || strings.Contains(stderr, "goroutine stack exceeds"):
		kind = "stack-overflow"
	case strings.Contains(stderr, "nil pointer dereference"):
		kind = "nil-deref"
	case strings.Contains(stderr, "all goroutines are asleep"):
		kind = "deadlock"
	case strings.Contains(stderr, "concurrent map"):
		kind = "concurrent-map"
	}
	frame = "?"
	for _, l := range strings.Split(stderr, "\n") {
		l = strings.TrimSpace(l)
		if strings.HasPrefix(l, "github.com/arr-ai/arrai/") {
			if i := strings.LastIndex(l, "("); i > 0 {
				l = l[:i]
			}
			frame = strings.TrimPrefix(l, "github.com/arr-ai/arrai/")
			break
		}
	}
	return
}

func headOf(s string, n int) string {
	if len(s) > n {
		return s[:n] + "..."
	}
	return s
}
