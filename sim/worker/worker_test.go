// Package worker is the test binary every simulated run executes in (it is a
// test binary so that testing/synctest is usable).
package worker

import (
	"testing"

	"aaverif/workerlib"

	_ "aaverif/eng"
)

func TestWorker(t *testing.T) { workerlib.Serve(t) }
