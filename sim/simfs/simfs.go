// Package simfs is the simulated disk: an afero.Fs over an in-memory tree with
// POSIX-like semantics that records every operation, lets the simulator fail
// any operation (with the real-world meaning of that failure: a failed write
// leaves a prefix, a failed remove leaves the entry) and calls the simulator
// before every operation, which is where the scheduler parks tasks.
//
// A silently truncated read (fewer bytes, no error) is never produced.
package simfs

import (
	"errors"
	"io"
	"os"
	"path"
	"sort"
	"strings"
	"sync"
	"syscall"
	"time"

	"github.com/spf13/afero"
)

// ErrInjected is the error injected faults carry (wrapped in *os.PathError).
var ErrInjected = syscall.EIO

// Fault tells an operation to fail.
type Fault struct {
	Err     error // default EIO
	Partial int   // read/write: bytes transferred before the error is reported
}

// Op is one recorded operation.
type Op struct {
	Seq   int
	Kind  string
	Path  string
	Path2 string
	Mut   bool // would mutate the tree
	OK    bool
	Fault bool
	N     int
}

type node struct {
	dir  bool
	data []byte
	kids map[string]*node
	mode os.FileMode
	// durability: what a crash right now would leave. dirty is set by every write or truncation and
	// cleared by a successful Sync; durable is the content as of the last successful Sync.
	durable []byte
	dirty   bool
}

// FS is one simulated disk.
type FS struct {
	mu   sync.Mutex
	root *node
	Cwd  string
	ops  []Op
	// Before is called, with no lock held, before every operation. It may block
	// (the scheduler parks the calling task here). A non-nil result fails the operation.
	Before func(seq int, kind, p string) *Fault
	Label  string
}

// New returns an empty disk whose working directory is cwd.
func New(label, cwd string) *FS {
	return &FS{root: &node{dir: true, kids: map[string]*node{}, mode: 0o755}, Cwd: cwd, Label: label}
}

var _ afero.Fs = (*FS)(nil)

func (f *FS) abs(p string) string {
	if p == "" {
		return ""
	}
	if !path.IsAbs(p) {
		p = path.Join(f.Cwd, p)
	}
	return path.Clean(p)
}

// Abs is the absolute, cleaned form of p on this disk.
func (f *FS) Abs(p string) string { return f.abs(p) }

func perr(op, p string, e error) error { return &os.PathError{Op: op, Path: p, Err: e} }

func (f *FS) lookup(p string) (*node, error) {
	if p == "" {
		return nil, syscall.ENOENT
	}
	n := f.root
	if p == "/" {
		return n, nil
	}
	for _, seg := range strings.Split(strings.TrimPrefix(p, "/"), "/") {
		if !n.dir {
			return nil, syscall.ENOTDIR
		}
		k, ok := n.kids[seg]
		if !ok {
			return nil, syscall.ENOENT
		}
		n = k
	}
	return n, nil
}

func (f *FS) parent(p string) (*node, string, error) {
	dir, base := path.Split(p)
	if base == "" {
		return nil, "", syscall.EINVAL
	}
	pn, err := f.lookup(path.Clean(dir))
	if err != nil {
		return nil, "", err
	}
	if !pn.dir {
		return nil, "", syscall.ENOTDIR
	}
	return pn, base, nil
}

// begin records the operation and consults the simulator.
func (f *FS) begin(kind, p, p2 string, mut bool) (int, *Fault) {
	f.mu.Lock()
	seq := len(f.ops)
	f.ops = append(f.ops, Op{Seq: seq, Kind: kind, Path: p, Path2: p2, Mut: mut})
	before := f.Before
	f.mu.Unlock()
	var ft *Fault
	if before != nil {
		ft = before(seq, kind, p)
	}
	if ft != nil {
		if ft.Err == nil {
			ft.Err = ErrInjected
		}
		f.mu.Lock()
		f.ops[seq].Fault = true
		f.mu.Unlock()
	}
	return seq, ft
}

func (f *FS) end(seq int, ok bool, n int) {
	f.ops[seq].OK = ok
	f.ops[seq].N = n
}

// Ops returns a copy of the operation log.
func (f *FS) Ops() []Op {
	f.mu.Lock()
	defer f.mu.Unlock()
	return append([]Op(nil), f.ops...)
}

// NOps is the number of operations so far.
func (f *FS) NOps() int {
	f.mu.Lock()
	defer f.mu.Unlock()
	return len(f.ops)
}

// ResetOps clears the log.
func (f *FS) ResetOps() {
	f.mu.Lock()
	f.ops = nil
	f.mu.Unlock()
}

func (f *FS) Name() string { return "simfs:" + f.Label }

func (f *FS) Stat(name string) (os.FileInfo, error) {
	p := f.abs(name)
	seq, ft := f.begin("stat", p, "", false)
	if ft != nil {
		return nil, perr("stat", name, ft.Err)
	}
	f.mu.Lock()
	defer f.mu.Unlock()
	n, err := f.lookup(p)
	if err != nil {
		return nil, perr("stat", name, err)
	}
	f.end(seq, true, 0)
	return &info{name: path.Base(p), n: n, size: int64(len(n.data))}, nil
}

func (f *FS) Mkdir(name string, perm os.FileMode) error {
	p := f.abs(name)
	seq, ft := f.begin("mkdir", p, "", true)
	if ft != nil {
		return perr("mkdir", name, ft.Err)
	}
	f.mu.Lock()
	defer f.mu.Unlock()
	if p == "/" {
		return perr("mkdir", name, syscall.EEXIST)
	}
	pn, base, err := f.parent(p)
	if err != nil {
		return perr("mkdir", name, err)
	}
	if _, ok := pn.kids[base]; ok {
		return perr("mkdir", name, syscall.EEXIST)
	}
	pn.kids[base] = &node{dir: true, kids: map[string]*node{}, mode: perm}
	f.end(seq, true, 0)
	return nil
}

func (f *FS) MkdirAll(name string, perm os.FileMode) error {
	p := f.abs(name)
	seq, ft := f.begin("mkdirall", p, "", true)
	if ft != nil {
		return perr("mkdir", name, ft.Err)
	}
	f.mu.Lock()
	defer f.mu.Unlock()
	if err := f.mkdirAll(p, perm); err != nil {
		return perr("mkdir", name, err)
	}
	f.end(seq, true, 0)
	return nil
}

func (f *FS) mkdirAll(p string, perm os.FileMode) error {
	n := f.root
	if p == "/" {
		return nil
	}
	for _, seg := range strings.Split(strings.TrimPrefix(p, "/"), "/") {
		k, ok := n.kids[seg]
		if !ok {
			k = &node{dir: true, kids: map[string]*node{}, mode: perm}
			n.kids[seg] = k
		} else if !k.dir {
			return syscall.ENOTDIR
		}
		n = k
	}
	return nil
}

func (f *FS) Create(name string) (afero.File, error) {
	return f.openFile("create", name, os.O_RDWR|os.O_CREATE|os.O_TRUNC, 0o666)
}

func (f *FS) Open(name string) (afero.File, error) {
	return f.openFile("open", name, os.O_RDONLY, 0)
}

func (f *FS) OpenFile(name string, flag int, perm os.FileMode) (afero.File, error) {
	return f.openFile("openfile", name, flag, perm)
}

func (f *FS) openFile(kind, name string, flag int, perm os.FileMode) (afero.File, error) {
	p := f.abs(name)
	mut := flag&(os.O_CREATE|os.O_TRUNC) != 0
	seq, ft := f.begin(kind, p, "", mut)
	if ft != nil {
		return nil, perr("open", name, ft.Err)
	}
	f.mu.Lock()
	defer f.mu.Unlock()
	n, err := f.lookup(p)
	switch {
	case err == nil:
		if flag&os.O_CREATE != 0 && flag&os.O_EXCL != 0 {
			return nil, perr("open", name, syscall.EEXIST)
		}
		if n.dir && flag&(os.O_WRONLY|os.O_RDWR|os.O_TRUNC) != 0 {
			return nil, perr("open", name, syscall.EISDIR)
		}
		if flag&os.O_TRUNC != 0 {
			n.data = nil
			n.dirty = true
		}
	case errors.Is(err, syscall.ENOENT) && flag&os.O_CREATE != 0:
		pn, base, perr2 := f.parent(p)
		if perr2 != nil {
			return nil, perr("open", name, perr2)
		}
		n = &node{mode: perm, dirty: true}
		pn.kids[base] = n
	default:
		return nil, perr("open", name, err)
	}
	f.end(seq, true, 0)
	h := &file{fs: f, n: n, p: p, name: name, flag: flag}
	if flag&os.O_APPEND != 0 {
		h.pos = int64(len(n.data))
	}
	return h, nil
}

func (f *FS) Remove(name string) error {
	p := f.abs(name)
	seq, ft := f.begin("remove", p, "", true)
	if ft != nil {
		return perr("remove", name, ft.Err)
	}
	f.mu.Lock()
	defer f.mu.Unlock()
	pn, base, err := f.parent(p)
	if err != nil {
		return perr("remove", name, err)
	}
	n, ok := pn.kids[base]
	if !ok {
		return perr("remove", name, syscall.ENOENT)
	}
	if n.dir && len(n.kids) > 0 {
		return perr("remove", name, syscall.ENOTEMPTY)
	}
	delete(pn.kids, base)
	f.end(seq, true, 0)
	return nil
}

func (f *FS) RemoveAll(name string) error {
	p := f.abs(name)
	seq, ft := f.begin("removeall", p, "", true)
	if ft != nil {
		return perr("removeall", name, ft.Err)
	}
	f.mu.Lock()
	defer f.mu.Unlock()
	if p == "/" {
		f.root.kids = map[string]*node{}
		f.end(seq, true, 0)
		return nil
	}
	pn, base, err := f.parent(p)
	if err != nil {
		if errors.Is(err, syscall.ENOENT) {
			f.end(seq, true, 0)
			return nil
		}
		return perr("removeall", name, err)
	}
	delete(pn.kids, base)
	f.end(seq, true, 0)
	return nil
}

func (f *FS) Rename(oldname, newname string) error {
	po, pn := f.abs(oldname), f.abs(newname)
	seq, ft := f.begin("rename", po, pn, true)
	if ft != nil {
		return &os.LinkError{Op: "rename", Old: oldname, New: newname, Err: ft.Err}
	}
	f.mu.Lock()
	defer f.mu.Unlock()
	opn, obase, err := f.parent(po)
	if err != nil {
		return &os.LinkError{Op: "rename", Old: oldname, New: newname, Err: err}
	}
	n, ok := opn.kids[obase]
	if !ok {
		return &os.LinkError{Op: "rename", Old: oldname, New: newname, Err: syscall.ENOENT}
	}
	npn, nbase, err := f.parent(pn)
	if err != nil {
		return &os.LinkError{Op: "rename", Old: oldname, New: newname, Err: err}
	}
	if ex, ok := npn.kids[nbase]; ok && ex.dir && (!n.dir || len(ex.kids) > 0) {
		return &os.LinkError{Op: "rename", Old: oldname, New: newname, Err: syscall.EEXIST}
	}
	delete(opn.kids, obase)
	npn.kids[nbase] = n
	f.end(seq, true, 0)
	return nil
}

func (f *FS) Chmod(name string, mode os.FileMode) error {
	p := f.abs(name)
	seq, ft := f.begin("chmod", p, "", true)
	if ft != nil {
		return perr("chmod", name, ft.Err)
	}
	f.mu.Lock()
	defer f.mu.Unlock()
	n, err := f.lookup(p)
	if err != nil {
		return perr("chmod", name, err)
	}
	n.mode = mode
	f.end(seq, true, 0)
	return nil
}

func (f *FS) Chtimes(name string, atime, mtime time.Time) error {
	p := f.abs(name)
	seq, ft := f.begin("chtimes", p, "", true)
	if ft != nil {
		return perr("chtimes", name, ft.Err)
	}
	f.mu.Lock()
	defer f.mu.Unlock()
	if _, err := f.lookup(p); err != nil {
		return perr("chtimes", name, err)
	}
	f.end(seq, true, 0)
	return nil
}

// ---- harness-side access (not recorded, never faulted) ----

// Put writes a file, creating parents.
func (f *FS) Put(p string, data string) {
	f.mu.Lock()
	defer f.mu.Unlock()
	p = f.abs(p)
	if err := f.mkdirAll(path.Dir(p), 0o755); err != nil {
		panic("simfs.Put: " + err.Error())
	}
	pn, base, err := f.parent(p)
	if err != nil {
		panic("simfs.Put: " + err.Error())
	}
	pn.kids[base] = &node{data: []byte(data), mode: 0o644}
}

// PutDir creates a directory and its parents.
func (f *FS) PutDir(p string) {
	f.mu.Lock()
	defer f.mu.Unlock()
	if err := f.mkdirAll(f.abs(p), 0o755); err != nil {
		panic("simfs.PutDir: " + err.Error())
	}
}

// Snapshot maps every path to "D" (directory) or "F"+content.
func (f *FS) Snapshot() map[string]string {
	f.mu.Lock()
	defer f.mu.Unlock()
	out := map[string]string{}
	var walk func(p string, n *node)
	walk = func(p string, n *node) {
		if n.dir {
			if p != "" {
				out[p] = "D"
			}
			for k, c := range n.kids {
				walk(p+"/"+k, c)
			}
			return
		}
		out[p] = "F" + string(n.data)
	}
	walk("", f.root)
	return out
}

// DurableSnapshot is Snapshot as a crash right now would leave it: a file written (or truncated) since
// its last successful Sync holds what it held at that Sync (nothing, for a file never synced).
func (f *FS) DurableSnapshot() map[string]string {
	f.mu.Lock()
	defer f.mu.Unlock()
	out := map[string]string{}
	var walk func(p string, n *node)
	walk = func(p string, n *node) {
		if n.dir {
			if p != "" {
				out[p] = "D"
			}
			for k, c := range n.kids {
				walk(p+"/"+k, c)
			}
			return
		}
		if n.dirty {
			out[p] = "F" + string(n.durable)
		} else {
			out[p] = "F" + string(n.data)
		}
	}
	walk("", f.root)
	return out
}

// Clone deep-copies the tree (not the log, not the hook).
func (f *FS) Clone(label string) *FS {
	f.mu.Lock()
	defer f.mu.Unlock()
	var cp func(n *node) *node
	cp = func(n *node) *node {
		m := &node{dir: n.dir, mode: n.mode, data: append([]byte(nil), n.data...), durable: append([]byte(nil), n.durable...), dirty: n.dirty}
		if n.dir {
			m.kids = map[string]*node{}
			for k, c := range n.kids {
				m.kids[k] = cp(c)
			}
		}
		return m
	}
	return &FS{root: cp(f.root), Cwd: f.Cwd, Label: label}
}

// ---- files ----

type file struct {
	fs     *FS
	n      *node
	p      string
	name   string
	flag   int
	pos    int64
	closed bool
	dirpos int
}

func (h *file) writable() bool { return h.flag&(os.O_WRONLY|os.O_RDWR) != 0 }

func (h *file) Name() string { return h.name }

func (h *file) Close() error {
	seq, ft := h.fs.begin("close", h.p, "", false)
	if h.closed {
		return afero.ErrFileClosed
	}
	h.closed = true
	if ft != nil {
		return perr("close", h.name, ft.Err)
	}
	h.fs.mu.Lock()
	h.fs.end(seq, true, 0)
	h.fs.mu.Unlock()
	return nil
}

func (h *file) Read(b []byte) (int, error) {
	seq, ft := h.fs.begin("read", h.p, "", false)
	if h.closed {
		return 0, afero.ErrFileClosed
	}
	h.fs.mu.Lock()
	defer h.fs.mu.Unlock()
	if h.n.dir {
		return 0, perr("read", h.name, syscall.EISDIR)
	}
	avail := int64(len(h.n.data)) - h.pos
	if avail < 0 {
		avail = 0
	}
	if ft != nil {
		n := ft.Partial
		if int64(n) > avail {
			n = int(avail)
		}
		if n > len(b) {
			n = len(b)
		}
		copy(b, h.n.data[h.pos:h.pos+int64(n)])
		h.pos += int64(n)
		h.fs.ops[seq].N = n
		return n, perr("read", h.name, ft.Err)
	}
	if avail == 0 {
		h.fs.end(seq, true, 0)
		return 0, io.EOF
	}
	n := copy(b, h.n.data[h.pos:])
	h.pos += int64(n)
	h.fs.end(seq, true, n)
	return n, nil
}

func (h *file) ReadAt(b []byte, off int64) (int, error) {
	seq, ft := h.fs.begin("readat", h.p, "", false)
	if h.closed {
		return 0, afero.ErrFileClosed
	}
	if ft != nil {
		return 0, perr("read", h.name, ft.Err)
	}
	h.fs.mu.Lock()
	defer h.fs.mu.Unlock()
	if off >= int64(len(h.n.data)) {
		h.fs.end(seq, true, 0)
		return 0, io.EOF
	}
	n := copy(b, h.n.data[off:])
	h.fs.end(seq, true, n)
	if n < len(b) {
		return n, io.EOF
	}
	return n, nil
}

func (h *file) Seek(offset int64, whence int) (int64, error) {
	if h.closed {
		return 0, afero.ErrFileClosed
	}
	h.fs.mu.Lock()
	defer h.fs.mu.Unlock()
	switch whence {
	case io.SeekStart:
		h.pos = offset
	case io.SeekCurrent:
		h.pos += offset
	case io.SeekEnd:
		h.pos = int64(len(h.n.data)) + offset
	}
	if h.pos < 0 {
		h.pos = 0
		return 0, perr("seek", h.name, syscall.EINVAL)
	}
	return h.pos, nil
}

func (h *file) Write(b []byte) (int, error) {
	seq, ft := h.fs.begin("write", h.p, "", true)
	if h.closed {
		return 0, afero.ErrFileClosed
	}
	if !h.writable() {
		return 0, perr("write", h.name, syscall.EBADF)
	}
	h.fs.mu.Lock()
	defer h.fs.mu.Unlock()
	w := b
	if ft != nil {
		n := ft.Partial
		if n > len(b) {
			n = len(b)
		}
		w = b[:n]
	}
	end := h.pos + int64(len(w))
	if end > int64(len(h.n.data)) {
		nd := make([]byte, end)
		copy(nd, h.n.data)
		h.n.data = nd
	}
	copy(h.n.data[h.pos:], w)
	h.n.dirty = true
	h.pos = end
	if ft != nil {
		h.fs.ops[seq].N = len(w)
		return len(w), perr("write", h.name, ft.Err)
	}
	h.fs.end(seq, true, len(w))
	return len(w), nil
}

func (h *file) WriteAt(b []byte, off int64) (int, error) {
	h.fs.mu.Lock()
	h.pos = off
	h.fs.mu.Unlock()
	return h.Write(b)
}

func (h *file) WriteString(s string) (int, error) { return h.Write([]byte(s)) }

func (h *file) Sync() error {
	seq, ft := h.fs.begin("sync", h.p, "", false)
	if h.closed {
		return afero.ErrFileClosed
	}
	if ft != nil {
		return perr("sync", h.name, ft.Err)
	}
	h.fs.mu.Lock()
	h.n.durable = append([]byte(nil), h.n.data...)
	h.n.dirty = false
	h.fs.end(seq, true, 0)
	h.fs.mu.Unlock()
	return nil
}

func (h *file) Truncate(size int64) error {
	seq, ft := h.fs.begin("truncate", h.p, "", true)
	if ft != nil {
		return perr("truncate", h.name, ft.Err)
	}
	h.fs.mu.Lock()
	defer h.fs.mu.Unlock()
	if size < int64(len(h.n.data)) {
		h.n.data = h.n.data[:size]
	} else {
		nd := make([]byte, size)
		copy(nd, h.n.data)
		h.n.data = nd
	}
	h.n.dirty = true
	h.fs.end(seq, true, 0)
	return nil
}

func (h *file) Stat() (os.FileInfo, error) {
	seq, ft := h.fs.begin("fstat", h.p, "", false)
	if ft != nil {
		return nil, perr("stat", h.name, ft.Err)
	}
	h.fs.mu.Lock()
	defer h.fs.mu.Unlock()
	h.fs.end(seq, true, 0)
	return &info{name: path.Base(h.p), n: h.n, size: int64(len(h.n.data))}, nil
}

func (h *file) Readdir(count int) ([]os.FileInfo, error) {
	seq, ft := h.fs.begin("readdir", h.p, "", false)
	if ft != nil {
		return nil, perr("readdir", h.name, ft.Err)
	}
	h.fs.mu.Lock()
	defer h.fs.mu.Unlock()
	if !h.n.dir {
		return nil, perr("readdir", h.name, syscall.ENOTDIR)
	}
	names := make([]string, 0, len(h.n.kids))
	for k := range h.n.kids {
		names = append(names, k)
	}
	sort.Strings(names)
	if h.dirpos > len(names) {
		h.dirpos = len(names)
	}
	names = names[h.dirpos:]
	if count > 0 && len(names) > count {
		names = names[:count]
	}
	h.dirpos += len(names)
	out := make([]os.FileInfo, 0, len(names))
	for _, k := range names {
		c := h.n.kids[k]
		out = append(out, &info{name: k, n: c, size: int64(len(c.data))})
	}
	h.fs.end(seq, true, len(out))
	if count > 0 && len(out) == 0 {
		return out, io.EOF
	}
	return out, nil
}

func (h *file) Readdirnames(n int) ([]string, error) {
	fis, err := h.Readdir(n)
	names := make([]string, 0, len(fis))
	for _, fi := range fis {
		names = append(names, fi.Name())
	}
	return names, err
}

type info struct {
	name string
	n    *node
	size int64
}

func (i *info) Name() string { return i.name }
func (i *info) Size() int64  { return i.size }
func (i *info) Mode() os.FileMode {
	if i.n.dir {
		return os.ModeDir | 0o755
	}
	return 0o644
}
func (i *info) ModTime() time.Time { return time.Unix(0, 0) }
func (i *info) IsDir() bool        { return i.n.dir }
func (i *info) Sys() interface{}   { return nil }
