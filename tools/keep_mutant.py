#!/usr/bin/env python3
"""keep_mutant.py <src dir> <seeded id> <property> <detected: yes|no|after-strengthening> <notes>
Copies a confirmed seeded change into /verif/seeded/<id>/ and records what was run."""
import json, os, shutil, sys
src, sid, prop, detected, notes = sys.argv[1:6]
dst = os.path.join('/verif/seeded', sid)
os.makedirs(dst, exist_ok=True)
for f in os.listdir(src):
    p = os.path.join(src, f)
    if os.path.isfile(p) and os.path.getsize(p) < 200000:
        shutil.copy(p, os.path.join(dst, f))
try:
    meta = json.load(open(os.path.join(src, 'meta.json')))
except Exception:
    meta = {}
meta['property'] = prop
meta['confirmed'] = 'tools/verify_mutant.sh in a scratch worktree of /repo: demonstration passes on the unchanged tree, patch applies and compiles, demonstration fails with the change, existing suite unchanged (only the three network-dependent baseline failures)'
meta['check_run'] = 'tools/try_mutant.sh patch.diff %s quick (git -C /repo apply; ./check %s quick; git -C /repo checkout -- .)' % (prop, prop)
meta['detected_by_check'] = detected
meta['notes'] = notes
json.dump(meta, open(os.path.join(dst, 'meta.json'), 'w'), indent=1)
print('kept', dst)
