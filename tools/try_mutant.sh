#!/bin/bash
# try_mutant.sh <patch.diff> <ID> [tier] [extra check args...]
# Applies a seeded change to /repo, runs the property's check, and undoes the change straight
# afterwards. Prints DETECTED / MISSED and the violating signatures.
set -u
PATCH="$(readlink -f "$1")"; ID="$2"; TIER="${3:-quick}"; shift; shift; shift || true
cd /verif || exit 2
if [ -n "$(git -C /repo status --porcelain)" ]; then echo "/repo is not clean"; exit 2; fi
git -C /repo apply "$PATCH" || { echo "patch does not apply"; exit 2; }
LOG=$(mktemp /tmp/try.XXXXXX)
# the evidence file and replays written by a run against a seeded change say nothing about /repo:
# keep the committed evidence, drop the replays
EV=$(mktemp /tmp/try.ev.XXXXXX); cp "evidence/$ID.json" "$EV" 2>/dev/null
./check "$ID" "$TIER" "$@" >"$LOG" 2>&1
rc=$?
git -C /repo checkout -- . ; git -C /repo clean -fdq
[ -s "$EV" ] && cp "$EV" "evidence/$ID.json"; rm -f "$EV"
git -C /verif clean -fdq replays
echo "exit $rc"
grep -E "^(VIOLATION|KNOWN-FINDING|NONDETERMINISM|INFRA)" "$LOG" | cut -c1-200
grep -E "^  signature:" "$LOG" | sort | uniq -c | cut -c1-200
tail -1 "$LOG" | cut -c1-200
case $rc in
	1) echo "DETECTED" ;;
	0) echo "MISSED" ;;
	*) echo "CHECK-BROKEN (exit $rc)"; tail -20 "$LOG" ;;
esac
rm -f "$LOG"
