#!/bin/bash
# verify_mutant.sh <dir with patch.diff, meta.json and a demonstration> [demo package dir for demo_test.go]
# Confirms, in a scratch worktree of /repo outside /repo and /verif, that the change
#   (1) applies and compiles, (2) leaves the existing test suite as it was,
#   (3) makes the demonstration fail, while the demonstration passes on the unchanged tree.
# The worktree and its build output are removed at the end. Exit 0 = confirmed.
set -u
D="$(cd "$1" && pwd)"
PKG="${2:-}"
export GOFLAGS=-mod=mod GOPROXY=off
WT=$(mktemp -d /tmp/mv.XXXXXX)
rmdir "$WT"
git -C /repo worktree add -q --detach "$WT" HEAD || exit 2
cleanup() { git -C /repo worktree remove --force "$WT" >/dev/null 2>&1; rm -rf "$WT"; }
trap cleanup EXIT
cd "$WT" || exit 2

run_demo() { # returns demo exit code
	if [ -f "$D/demo.sh" ]; then
		(cd "$WT" && bash "$D/demo.sh" "$WT") >"$WT/.demo.out" 2>&1
		return $?
	fi
	local t; t=$(ls "$D"/*_test.go 2>/dev/null | head -1)
	if [ -n "$t" ]; then
		local pkg="$PKG"
		if [ -z "$pkg" ]; then pkg=$(python3 -c "import json,sys; m=json.load(open(sys.argv[1])); print(m.get('demo_package') or m.get('package') or '')" "$D/meta.json" 2>/dev/null); fi
		if [ -z "$pkg" ]; then echo "no package for demo test" >&2; return 99; fi
		cp "$t" "$WT/$pkg/zz_demo_test.go"
		local name; name=$(grep -o 'func Test[A-Za-z0-9_]*' "$t" | sed 's/func //' | paste -sd'|')
		(cd "$WT" && go test -vet=off -count=1 -run "^(${name})\$" "./$pkg/") >"$WT/.demo.out" 2>&1
		local rc=$?
		rm -f "$WT/$pkg/zz_demo_test.go"
		return $rc
	fi
	echo "no demonstration found" >&2
	return 99
}

echo "== demonstration on the unchanged tree"
run_demo; base_rc=$?
echo "   exit $base_rc"
if [ $base_rc -ne 0 ]; then tail -15 "$WT/.demo.out"; echo "RESULT: demonstration does not pass on the unchanged tree"; exit 1; fi

echo "== apply"
git apply "$D/patch.diff" || { echo "RESULT: patch does not apply"; exit 1; }
go build ./... || { echo "RESULT: does not compile"; exit 1; }

echo "== demonstration with the change"
run_demo; mut_rc=$?
echo "   exit $mut_rc"
if [ $mut_rc -eq 0 ]; then echo "RESULT: demonstration still passes with the change"; exit 1; fi
tail -6 "$WT/.demo.out" | cut -c1-300

echo "== existing test suite with the change"
go test -vet=off -count=1 -timeout 25m ./... 2>&1 | grep -E "^(--- FAIL|FAIL|panic)" | grep -v "TestCompileFile\|TestBundleFiles\|TestPackageExternalImportModule\|^FAIL$\|^FAIL\sgithub.com/arr-ai/arrai/\(cmd/arrai\|pkg/bundle\|syntax\)\s" > "$WT/.newfail"
if [ -s "$WT/.newfail" ]; then cat "$WT/.newfail"; echo "RESULT: existing tests fail with the change"; exit 1; fi
# the three packages with network-dependent failures: make sure nothing else fails in them
go test -vet=off -count=1 -timeout 25m ./cmd/arrai/ ./pkg/bundle/ ./syntax/ 2>&1 | grep -E "^\s*--- FAIL" | grep -v "TestCompileFile\|TestBundleFiles\|TestPackageExternalImportModule" > "$WT/.newfail2"
if [ -s "$WT/.newfail2" ]; then cat "$WT/.newfail2"; echo "RESULT: existing tests fail with the change"; exit 1; fi
echo "RESULT: confirmed"
exit 0
