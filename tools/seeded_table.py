#!/usr/bin/env python3
"""Regenerates the table of DESIGN.md section 8.6 from /verif/seeded/*/meta.json (in place)."""
import json, os, re
root = '/verif/seeded'
rows = []
for d in sorted(os.listdir(root)):
    p = os.path.join(root, d, 'meta.json')
    if d.startswith('_') or not os.path.isfile(p):
        continue
    m = json.load(open(p))
    def cell(s, n):
        s = ' '.join(str(s).replace('|', '/').split())
        return s if len(s) <= n else s[:n]
    rows.append('| %s | `%s` | %s | %s | %s |' % (m.get('property', d[:3]), d, cell(m.get('title', ''), 160),
                cell(m.get('detected_by_check', '?'), 40), cell(m.get('notes', ''), 520)))
head = ['| property | seeded change | what it does | detected by quick check | how |', '|---|---|---|---|---|']
src = open('/verif/DESIGN.md').read().split('\n')
i = next(k for k, l in enumerate(src) if l.startswith('| property | seeded change'))
j = i
while j < len(src) and src[j].startswith('|'):
    j += 1
src[i:j] = head + rows
open('/verif/DESIGN.md', 'w').write('\n'.join(src))
from collections import Counter
print(len(rows), Counter(json.load(open(os.path.join(root, d, 'meta.json'))).get('detected_by_check') for d in os.listdir(root) if not d.startswith('_') and os.path.isfile(os.path.join(root, d, 'meta.json'))))
